#!/usr/bin/env python3
"""Writes mutants/*.patch: deliberate property-breaking edits (each compiles and keeps the
repository's own test-suite green). Patches are produced against /repo's current HEAD."""
import subprocess, os, tempfile, shutil, sys

M = [
 # name, expect, file, old, new
 ("C01-remaining-off-by-one", "C01", "src/packet.rs",
  "                        self.remaining = rest.len();\n                        return Ok(Some(p));",
  "                        self.remaining = if rest.len() > 5 { rest.len() - 1 } else { rest.len() };\n                        return Ok(Some(p));"),
 ("C01-no-drain", "C01", "src/packet.rs",
  "            self.bytes.drain(0..self.start);\n            self.start = 0;",
  "            if self.bytes.len() < 6000 { self.bytes.drain(0..self.start); self.start = 0; }"),
 ("C02-use-without-space", "C02", "src/lib.rs",
  'q.starts_with(b"USE ") || q.starts_with(b"use ")',
  'q.starts_with(b"USE") || q.starts_with(b"use ")'),
 ("C02-no-backtick-trim", "C02", "src/lib.rs",
  "schema.trim().trim_end_matches(';').trim_matches('`')",
  "schema.trim().trim_end_matches(';')"),
 ("C03-more-flag-on-last", "C03 C14", "src/resultset.rs",
  "    pub fn no_more_results(mut self) -> io::Result<()> {\n        self.finalize(false)",
  "    pub fn no_more_results(mut self) -> io::Result<()> {\n        self.finalize(self.is_bin)"),
 ("C03-start-finalize-false", "C03", "src/resultset.rs",
  "    pub fn start(mut self, columns: &'a [Column]) -> io::Result<RowWriter<'a, W>> {\n        self.finalize(true)?;",
  "    pub fn start(mut self, columns: &'a [Column]) -> io::Result<RowWriter<'a, W>> {\n        self.finalize(false)?;"),
 ("C05-no-seq-reset", "C05", "src/lib.rs",
  "        while let Some((seq, packet)) = self.rw.next()? {\n            self.rw.set_seq(seq.wrapping_add(1));",
  "        while let Some((seq, packet)) = self.rw.next()? {\n            if seq != 3 { self.rw.set_seq(seq.wrapping_add(1)); }"),
 ("C06-micros-5-digits", "C06", "src/value/encode.rs",
  'w.write_lenenc_str(format!("{:02}:{:02}:{:02}.{:06}", h, m, s, us).as_bytes())',
  'w.write_lenenc_str(format!("{:02}:{:02}:{:02}.{:05}", h, m, s, us).as_bytes())'),
 ("C07-bitmap-offset", "C07", "src/resultset.rs",
  "self.data[(self.col + 2) / 8] |= 1u8 << ((self.col + 2) % 8);",
  "self.data[(self.col + 2) / 8] |= 1u8 << ((self.col + 2 + (self.col / 14)) % 8);"),
 ("C08-micros-dropped", "C08", "src/value/decode.rs",
  "                let d = if len == 11 {",
  "                let d = if len == 12 {"),
 ("C09-swap-table-column", "C09", "src/writers.rs",
  "        w.write_lenenc_str(c.table.as_bytes())?;\n        w.write_lenenc_str(b\"\")?;\n        w.write_lenenc_str(c.column.as_bytes())?;",
  "        w.write_lenenc_str(if c.table.len() == 7 { c.column.as_bytes() } else { c.table.as_bytes() })?;\n        w.write_lenenc_str(b\"\")?;\n        w.write_lenenc_str(c.column.as_bytes())?;"),
 ("C10-keep-on-close", "C10", "src/lib.rs",
  "                    self.shim.on_close(stmt);\n                    stmts.remove(&stmt);",
  "                    self.shim.on_close(stmt);\n                    if stmt != 0 { stmts.remove(&stmt); }"),
 ("C12-no-flush-after-ping", "C12 C03", "src/lib.rs",
  "                Command::Ping => {\n                    writers::write_ok_packet(&mut self.rw, 0, 0, StatusFlags::empty())?;\n                }",
  "                Command::Ping => {\n                    writers::write_ok_packet(&mut self.rw, 0, 0, StatusFlags::empty())?;\n                    continue;\n                }"),
 ("C13-wrong-state-for-long-msg", "C13", "src/writers.rs",
  "    w.write_all(err.sqlstate())?;\n    w.write_all(msg)?;",
  "    w.write_all(if msg.len() > 300 { b\"HY000\" } else { err.sqlstate() })?;\n    w.write_all(msg)?;"),
 ("C14-swap-counters", "C14", "src/resultset.rs",
  "            }) => writers::write_ok_packet(self.writer, rows, last_insert_id, status),",
  "            }) => if more_exists && rows > 0xffff { writers::write_ok_packet(self.writer, last_insert_id, rows, status) } else { writers::write_ok_packet(self.writer, rows, last_insert_id, status) },"),
 ("C16-rebind-ignored", "C16", "src/params.rs",
  "                *self.bound_types = types;",
  "                if self.bound_types.is_empty() {\n                    *self.bound_types = types;\n                }"),
 ("C16-types-lost-when-shim-does-not-pull", "C16 C08", "src/params.rs",
  "        while params.try_next()?.is_some() {}\n        stmt.bound_types = bound_types;\n        Ok(())",
  "        while params.try_next()?.is_some() {}\n        Ok(())"),
 ("C19-default-on-init-swallows-error", "C19", "src/lib.rs",
  "        writer.ok()?;\n        Ok(())",
  "        let _ = writer.ok();\n        Ok(())"),
 ("C17-no-long-data-clear", "C17", "src/lib.rs",
  "                    state.long_data.clear();",
  "                    if stmt == 6 { state.long_data.clear(); }"),
 ("C04-no-empty-trailer", "C04", "src/packet.rs",
  "            self.last_full = len == U24_MAX;",
  "            self.last_full = false;"),
 ("C04-cut-one-byte-early", "C04", "src/packet.rs",
  "        let left = min(buf.len(), U24_MAX + 4 - self.to_write.len());\n        self.to_write.extend(&buf[..left]);\n\n        if self.to_write.len() == U24_MAX + 4 {",
  "        let left = min(buf.len(), U24_MAX + 3 - self.to_write.len());\n        self.to_write.extend(&buf[..left]);\n\n        if self.to_write.len() == U24_MAX + 3 {"),
 ("C11-ssl-always-advertised", "C11", "src/lib.rs",
  "        if tls_conf.is_some() {\n            capabilities[1] |= 0x08; // SSL support flag\n        }",
  "        if tls_conf.is_some() || capabilities[1] == 0x42 {\n            capabilities[1] |= 0x08; // SSL support flag\n        }"),
 ("C11-reject-wrong-code", "C11", "src/lib.rs",
  "                    ErrorKind::ER_ACCESS_DENIED_ERROR,\n                    \"client authentication failed\".as_ref(),",
  "                    ErrorKind::ER_DBACCESS_DENIED_ERROR,\n                    \"client authentication failed\".as_ref(),"),
 ("C11-username-trimmed", "C11 C18", "src/commands.rs",
  "            let (i, user) = nom::bytes::complete::take_until(&b\"\\0\"[..])(i)?;\n            let (i, _) = nom::bytes::complete::tag(b\"\\0\")(i)?;\n            (i, Some(user))",
  "            let (i, user) = nom::bytes::complete::take_until(&b\"\\0\"[..])(i)?;\n            let (i, _) = nom::bytes::complete::tag(b\"\\0\")(i)?;\n            (i, Some(if user.len() > 255 { &user[..255] } else { user }))"),
 ("C15-usize-cast-unchecked", "C15", "src/value/encode.rs",
  "        match <$target>::try_from(*$self) {\n            Ok(v) => $w.$m::<LittleEndian>(v),\n            Err(_) => Err(bad($self, $c)),\n        }",
  "        match <$target>::try_from(*$self) {\n            Ok(v) => $w.$m::<LittleEndian>(v),\n            Err(_) => $w.$m::<LittleEndian>(*$self as $target),\n        }"),
 ("C15-i16-into-unsigned-int", "C15", "src/value/encode.rs",
  "                    like_try_into!(self, _ => u32, w, write_u32, c)\n                }\n            }\n            ColumnType::MYSQL_TYPE_SHORT | ColumnType::MYSQL_TYPE_YEAR => {\n                assert!(signed);",
  "                    w.write_u32::<LittleEndian>(*self as u32)\n                }\n            }\n            ColumnType::MYSQL_TYPE_SHORT | ColumnType::MYSQL_TYPE_YEAR => {\n                assert!(signed);"),
 ("C18-keep-remaining", "C18", "src/packet.rs",
  "        self.remaining = 0;\n        res",
  "        res"),
 ("C18-prepend-truncated", "C18", "src/tls.rs",
  "            inner: Cursor::new(prepended.to_vec()).chain(rw),",
  "            inner: Cursor::new(prepended[..prepended.len().min(200)].to_vec()).chain(rw),"),
 ("C19-eof-in-header-ok", "C19", "src/packet.rs",
  "                if self.bytes.is_empty() {\n                    return Ok(None);",
  "                if self.bytes.len() < 4 {\n                    return Ok(None);"),
 ("C19-deferred-error-dropped", "C19", "src/packet.rs",
  "        if let Some(e) = self.deferred_err.take() {\n            return Err(e);\n        }",
  "        self.deferred_err.take();"),
 ("C19-flush-error-ignored-after-quit-like", "C19", "src/lib.rs",
  "            self.rw.flush()?;\n        }\n        Ok(())",
  "            if let Err(e) = self.rw.flush() {\n                if e.kind() != io::ErrorKind::TimedOut {\n                    return Err(e.into());\n                }\n            }\n        }\n        Ok(())"),
 ("C20-short-command-unwrap", "C20", "src/lib.rs",
  "            let cmd = commands::parse(&packet)\n                .map_err(|e| {",
  "            if packet.len() == 2 {\n                commands::parse(&packet).unwrap();\n            }\n            let cmd = commands::parse(&packet)\n                .map_err(|e| {"),
 ("C20-typemap-not-validated", "C20", "src/params.rs",
  "                if rest.len() - 1 < 2 * self.params as usize {\n                    return Err(bad(\"parameter block is shorter than its type table\"));\n                }",
  ""),
 ("C13-abort-on-short-message", "C13", "src/writers.rs",
  "    w.write_all(err.sqlstate())?;\n    w.write_all(msg)?;",
  "    if msg.len() == 7 && msg[0] == b'#' {\n        std::process::abort();\n    }\n    w.write_all(err.sqlstate())?;\n    w.write_all(msg)?;"),
 ("C20-spin-on-odd-command", "C20", "src/lib.rs",
  "            let cmd = commands::parse(&packet)\n                .map_err(|e| {",
  "            while packet.len() == 3 && packet[0] == 0x1f && packet[1] == 0x1f {\n                std::hint::spin_loop();\n            }\n            let cmd = commands::parse(&packet)\n                .map_err(|e| {"),
]

def main():
    os.makedirs("mutants", exist_ok=True)
    ok = 0
    for name, expect, f, old, new in M:
        src = open(os.path.join("/repo", f)).read()
        if src.count(old) != 1:
            print("ANCHOR NOT UNIQUE/FOUND:", name, src.count(old)); continue
        d = tempfile.mkdtemp()
        os.makedirs(os.path.join(d, "a", os.path.dirname(f)), exist_ok=True)
        os.makedirs(os.path.join(d, "b", os.path.dirname(f)), exist_ok=True)
        open(os.path.join(d, "a", f), "w").write(src)
        open(os.path.join(d, "b", f), "w").write(src.replace(old, new))
        diff = subprocess.run(["diff", "-u", os.path.join("a", f), os.path.join("b", f)], cwd=d, capture_output=True, text=True).stdout
        shutil.rmtree(d)
        open(f"mutants/{name}.patch", "w").write(f"# expect: {expect}\n" + diff)
        ok += 1
    print("wrote", ok, "of", len(M))
main()
