#!/usr/bin/env python3
"""Writes mutants/*.patch: deliberate property-breaking edits (each compiles and keeps the
repository's own test-suite green). Patches are produced against /repo's current HEAD."""
import subprocess, os, tempfile, shutil, sys

M = [
 # name, expect, file, old, new
 ("C01-remaining-off-by-one", "C01", "src/packet.rs",
  "                        self.remaining = rest.len();\n                        return Ok(Some(p));",
  "                        self.remaining = if rest.len() > 5 { rest.len() - 1 } else { rest.len() };\n                        return Ok(Some(p));"),
 ("C01-no-drain", "C01", "src/packet.rs",
  "            self.bytes.drain(0..self.start);\n            self.start = 0;",
  "            if self.bytes.len() < 6000 { self.bytes.drain(0..self.start); self.start = 0; }"),
 ("C02-use-without-space", "C02", "src/lib.rs",
  'q.starts_with(b"USE ") || q.starts_with(b"use ")',
  'q.starts_with(b"USE") || q.starts_with(b"use ")'),
 ("C02-no-backtick-trim", "C02", "src/lib.rs",
  "schema.trim().trim_end_matches(';').trim_matches('`')",
  "schema.trim().trim_end_matches(';')"),
 ("C03-more-flag-on-last", "C03 C14", "src/resultset.rs",
  "    pub fn no_more_results(mut self) -> io::Result<()> {\n        self.finalize(false)",
  "    pub fn no_more_results(mut self) -> io::Result<()> {\n        self.finalize(self.is_bin)"),
 ("C03-start-finalize-false", "C03", "src/resultset.rs",
  "    pub fn start(mut self, columns: &'a [Column]) -> io::Result<RowWriter<'a, W>> {\n        self.finalize(true)?;",
  "    pub fn start(mut self, columns: &'a [Column]) -> io::Result<RowWriter<'a, W>> {\n        self.finalize(false)?;"),
 ("C05-no-seq-reset", "C05", "src/lib.rs",
  "        while let Some((seq, packet)) = self.rw.next()? {\n            self.rw.set_seq(seq.wrapping_add(1));",
  "        while let Some((seq, packet)) = self.rw.next()? {\n            if seq != 3 { self.rw.set_seq(seq.wrapping_add(1)); }"),
 ("C06-micros-5-digits", "C06", "src/value/encode.rs",
  'w.write_lenenc_str(format!("{:02}:{:02}:{:02}.{:06}", h, m, s, us).as_bytes())',
  'w.write_lenenc_str(format!("{:02}:{:02}:{:02}.{:05}", h, m, s, us).as_bytes())'),
 ("C07-bitmap-offset", "C07", "src/resultset.rs",
  "self.data[(self.col + 2) / 8] |= 1u8 << ((self.col + 2) % 8);",
  "self.data[(self.col + 2) / 8] |= 1u8 << ((self.col + 2 + (self.col / 14)) % 8);"),
 ("C08-micros-dropped", "C08", "src/value/decode.rs",
  "                let d = if len == 11 {",
  "                let d = if len == 12 {"),
 ("C09-swap-table-column", "C09", "src/writers.rs",
  "        w.write_lenenc_str(c.table.as_bytes())?;\n        w.write_lenenc_str(b\"\")?;\n        w.write_lenenc_str(c.column.as_bytes())?;",
  "        w.write_lenenc_str(if c.table.len() == 7 { c.column.as_bytes() } else { c.table.as_bytes() })?;\n        w.write_lenenc_str(b\"\")?;\n        w.write_lenenc_str(c.column.as_bytes())?;"),
 ("C10-keep-on-close", "C10", "src/lib.rs",
  "                    self.shim.on_close(stmt);\n                    stmts.remove(&stmt);",
  "                    self.shim.on_close(stmt);\n                    if stmt != 0 { stmts.remove(&stmt); }"),
 ("C12-no-flush-after-ping", "C12 C03", "src/lib.rs",
  "                Command::Ping => {\n                    writers::write_ok_packet(&mut self.rw, 0, 0, StatusFlags::empty())?;\n                }",
  "                Command::Ping => {\n                    writers::write_ok_packet(&mut self.rw, 0, 0, StatusFlags::empty())?;\n                    continue;\n                }"),
 ("C13-wrong-state-for-long-msg", "C13", "src/writers.rs",
  "    w.write_all(err.sqlstate())?;\n    w.write_all(msg)?;",
  "    w.write_all(if msg.len() > 300 { b\"HY000\" } else { err.sqlstate() })?;\n    w.write_all(msg)?;"),
 ("C14-swap-counters", "C14", "src/resultset.rs",
  "            }) => writers::write_ok_packet(self.writer, rows, last_insert_id, status),",
  "            }) => if more_exists && rows > 0xffff { writers::write_ok_packet(self.writer, last_insert_id, rows, status) } else { writers::write_ok_packet(self.writer, rows, last_insert_id, status) },"),
 ("C16-types-shared", "C16", "src/params.rs",
  "                self.bound_types.clear();\n                for i in 0..self.params as usize {",
  "                if self.params != 3 { self.bound_types.clear(); }\n                for i in 0..self.params as usize {"),
 ("C17-no-long-data-clear", "C17", "src/lib.rs",
  "                    state.long_data.clear();",
  "                    if stmt == 6 { state.long_data.clear(); }"),
]

def main():
    os.makedirs("mutants", exist_ok=True)
    ok = 0
    for name, expect, f, old, new in M:
        src = open(os.path.join("/repo", f)).read()
        if src.count(old) != 1:
            print("ANCHOR NOT UNIQUE/FOUND:", name, src.count(old)); continue
        d = tempfile.mkdtemp()
        os.makedirs(os.path.join(d, "a", os.path.dirname(f)), exist_ok=True)
        os.makedirs(os.path.join(d, "b", os.path.dirname(f)), exist_ok=True)
        open(os.path.join(d, "a", f), "w").write(src)
        open(os.path.join(d, "b", f), "w").write(src.replace(old, new))
        diff = subprocess.run(["diff", "-u", os.path.join("a", f), os.path.join("b", f)], cwd=d, capture_output=True, text=True).stdout
        shutil.rmtree(d)
        open(f"mutants/{name}.patch", "w").write(f"# expect: {expect}\n" + diff)
        ok += 1
    print("wrote", ok, "of", len(M))
main()
