#!/usr/bin/env python3
"""Systematic sensitivity scan: small syntactic mutants of /repo/src (outside test modules), each
applied to a SCRATCH COPY, built, and run against the quick checks until one of them reports a
VIOLATION. A mutant that survives every check is re-run at full quick size, and if it still
survives, the repository's own test suite is run on it: a mutant that passes the suite AND all
checks is either equivalent, or irrelevant to the 20 properties, or a gap in the checks -- those
are listed for triage (DESIGN.md 10.4 records the triage).

/repo is never touched. Scratch lives under /tmp/msql-mut and is removed at the end.

  tools/mutscan.py --n 150 --seed 1 --jobs 3 --out mutscan/results-1.jsonl
"""
import argparse, json, os, random, re, shutil, subprocess, sys, threading, time, glob

VERIF = os.path.dirname(os.path.dirname(os.path.abspath(__file__)))
SCRATCH = os.environ.get("MUT_SCRATCH", "/tmp/msql-mut")
ALL = ["C%02d" % i for i in range(1, 21)]

# which checks to try first for a file (the ones anchored there), then the rest
FIRST = {
    "src/packet.rs": ["C01", "C04", "C05", "C19", "C12", "C20"],
    "src/lib.rs": ["C02", "C03", "C10", "C11", "C12", "C16", "C17", "C18", "C20"],
    "src/commands.rs": ["C02", "C11", "C20", "C16", "C17"],
    "src/params.rs": ["C08", "C16", "C17", "C20"],
    "src/resultset.rs": ["C03", "C07", "C13", "C14", "C15", "C09", "C10"],
    "src/writers.rs": ["C03", "C09", "C11", "C13", "C14", "C05"],
    "src/value/encode.rs": ["C06", "C07", "C15", "C04"],
    "src/value/decode.rs": ["C08", "C16", "C20"],
    "src/tls.rs": ["C18", "C19", "C06"],
    "src/errorcodes.rs": ["C13"],
}


def sh(cmd, cwd=None, env=None, timeout=None):
    e = dict(os.environ)
    e["CARGO_NET_OFFLINE"] = "true"
    if env:
        e.update(env)
    try:
        p = subprocess.run(cmd, shell=True, cwd=cwd, env=e, stdout=subprocess.PIPE, stderr=subprocess.STDOUT, timeout=timeout)
        return p.returncode, p.stdout.decode("utf-8", "replace")
    except subprocess.TimeoutExpired as ex:
        return 124, (ex.stdout or b"").decode("utf-8", "replace")


def code_lines(path):
    """(lineno, text) of non-test, non-comment lines"""
    out = []
    with open(path) as f:
        lines = f.read().split("\n")
    stop = len(lines)
    for i, l in enumerate(lines):
        if l.strip() == "#[cfg(test)]":
            stop = i
            break
    for i, l in enumerate(lines[:stop]):
        s = l.strip()
        if not s or s.startswith("//") or s.startswith("#[") or s.startswith("use ") or s.startswith("extern "):
            continue
        out.append((i, l))
    return out


def strip_strings(l):
    # positions inside string literals or trailing comments are not mutated
    mask = [True] * len(l)
    ins = False
    i = 0
    while i < len(l):
        c = l[i]
        if not ins and l.startswith("//", i):
            for j in range(i, len(l)):
                mask[j] = False
            break
        if c == '"' and (i == 0 or l[i - 1] != "\\"):
            ins = not ins
            mask[i] = False
        elif ins:
            mask[i] = False
        i += 1
    return mask


SWAPS = [
    (r" == ", " != "), (r" != ", " == "),
    (r" <= ", " < "), (r" >= ", " > "), (r" < ", " <= "), (r" > ", " >= "),
    (r" \+ ", " - "), (r" - ", " + "), (r" \+= ", " -= "), (r" -= ", " += "),
    (r" && ", " || "), (r" \|\| ", " && "),
    (r" \| ", " & "), (r" & ", " | "), (r" \|= ", " &= "),
    (r" << ", " >> "), (r" >> ", " << "),
    (r" \* ", " / "), (r" / ", " * "), (r" % ", " / "),
    (r"\btrue\b", "false"), (r"\bfalse\b", "true"),
    (r"\bif !", "if "),
    (r"\.is_some\(\)", ".is_none()"), (r"\.is_none\(\)", ".is_some()"),
    (r"\.is_empty\(\)", ".len() == 1"),
    (r"\.wrapping_add\(", ".wrapping_sub("),
    (r"\.min\(", ".max("), (r"\.max\(", ".min("),
    (r"\bu8::MAX\b", "(u8::MAX - 1)"),
]
NUM = re.compile(r"(?<![\w.])(0x[0-9a-fA-F_]+|\d[\d_]*)(?:_?(?:u8|u16|u32|u64|usize|i8|i16|i32|i64|isize))?(?![\w.])")


def candidates():
    cands = []
    files = sorted(glob.glob("/repo/src/*.rs") + glob.glob("/repo/src/value/*.rs"))
    for path in files:
        rel = os.path.relpath(path, "/repo")
        if rel in ("src/errorcodes.rs", "src/value/mod.rs"):
            # errorcodes.rs is one giant table (886 arms, checked exhaustively by C13's side check)
            continue
        for (i, l) in code_lines(path):
            if re.search(r"^\s*(pub )?(fn|impl|struct|enum|trait|type|mod|where)\b", l) or "::<" in l:
                generic = True
            else:
                generic = False
            mask = strip_strings(l)
            for pat, rep in SWAPS:
                if generic:
                    continue
                if pat in (r" \+ ", r" - ") and ("?Sized" in l or "'a" in l or re.search(r":\s*\w+ \+ \w+\s*[,>{]", l)):
                    continue
                for m in re.finditer(pat, l):
                    if not all(mask[m.start():m.end()]):
                        continue
                    if pat in (r" < ", r" > ") and ("->" in l[max(0, m.start() - 2):m.end() + 1] or "=>" in l[max(0, m.start() - 2):m.end() + 1]):
                        continue
                    new = l[:m.start()] + rep + l[m.end():]
                    cands.append({"file": rel, "line": i + 1, "op": pat + "->" + rep, "old": l, "new": new})
            for m in NUM.finditer(l):
                if not all(mask[m.start():m.end()]):
                    continue
                tok = m.group(1)
                try:
                    v = int(tok.replace("_", ""), 0)
                except ValueError:
                    continue
                for nv in ([v + 1] + ([v - 1] if v > 0 else [])):
                    ntok = hex(nv) if tok.startswith("0x") else str(nv)
                    new = l[:m.start(1)] + ntok + l[m.end(1):]
                    cands.append({"file": rel, "line": i + 1, "op": "num %s->%s" % (tok, ntok), "old": l, "new": new})
            s = l.strip()
            ind = l[: len(l) - len(l.lstrip())]
            # assignment deletion
            if re.match(r"^(self\.)?[a-z_][\w.]*(\[[^\]]*\])? (=|\+=|-=|\|=) [^=].*;$", s) and not s.startswith("let "):
                cands.append({"file": rel, "line": i + 1, "op": "delete assignment", "old": l, "new": ind + "// (deleted) " + s})
            # swallowed error: `call()?;` -> `let _ = call();`
            if re.match(r"^[\w.:&*]+\(.*\)\?;$", s) and "let " not in s and "return" not in s:
                cands.append({"file": rel, "line": i + 1, "op": "swallow error", "old": l, "new": ind + "let _ = " + s[:-2] + ";"})
            # loop control
            if s == "continue;":
                cands.append({"file": rel, "line": i + 1, "op": "continue->break", "old": l, "new": ind + "break;"})
            if s == "break;":
                cands.append({"file": rel, "line": i + 1, "op": "break->continue", "old": l, "new": ind + "continue;"})
            # statement deletion: a call whose value is not used
            if re.match(r"^(self\.|w\.|writer\.|results\.|rw\.|state\.|stmts\.|[a-z_]+\.)[\w.()&*, \[\]:]*\)\??;$", s) and "let " not in s and "return" not in s:
                cands.append({"file": rel, "line": i + 1, "op": "delete statement", "old": l, "new": l[: len(l) - len(l.lstrip())] + "// (deleted) " + s})
    return cands


def quick_sizes():
    sizes = {}
    for id in ALL:
        try:
            e = json.load(open(os.path.join(VERIF, "evidence", id + ".json")))
            sizes[id] = int(e["coverage"]["jobs"]["total"])
        except Exception:
            sizes[id] = 0
    return sizes


class Worker(threading.Thread):
    def __init__(self, idx, queue, out, lock, sizes, frac, workers):
        super().__init__()
        self.idx, self.queue, self.out, self.lock, self.sizes, self.frac, self.nw = idx, queue, out, lock, sizes, frac, workers
        self.dir = os.path.join(SCRATCH, "w%d" % idx)

    def setup(self):
        d = self.dir
        os.makedirs(d, exist_ok=True)
        sh("rsync -a --exclude target --exclude .git /repo/ %s/repo/" % d)
        sh("rsync -a --exclude target %s/sim/ %s/sim/" % (VERIF, d))
        sh("mkdir -p %s/fixtures && rsync -a %s/fixtures/ %s/fixtures/" % (d, VERIF, d))
        sh("cp %s/known_findings.json %s/properties.jsonl %s/" % (VERIF, VERIF, d))
        sh("sed -i 's#path = \"/repo\"#path = \"%s/repo\"#' %s/sim/Cargo.toml" % (d, d))
        sh("cp /repo/Cargo.lock %s/sim/Cargo.lock" % d)
        self.env = {"CARGO_TARGET_DIR": d + "/target", "VERIF_DIR": d, "VERIF_WORKERS": str(self.nw), "VERIF_BUDGET_S": "1500"}
        rc, out = sh("cargo build --release --offline", cwd=d + "/sim", env=self.env)
        if rc != 0:
            print("mutscan: baseline build failed in", d, out[-2000:], file=sys.stderr)
            return False
        return True

    def run_check(self, id, runs):
        env = dict(self.env)
        if runs:
            env["VERIF_RUNS"] = str(runs)
        rc, out = sh("%s/target/release/simcheck run %s quick" % (self.dir, id), env=env, timeout=1500)
        if rc == 1 and ("VIOLATION property=" + id) in out:
            first = ""
            for l in out.split("\n"):
                if l.startswith("  "):
                    first = l.strip()[:160]
                    break
            return "killed", first
        if rc == 0:
            return "ok", ""
        return "harness", "exit %d: %s" % (rc, out[-300:])

    def run(self):
        if not self.setup():
            return
        d = self.dir
        while True:
            with self.lock:
                if not self.queue:
                    break
                m = self.queue.pop(0)
            t0 = time.time()
            sh("rsync -a --delete --exclude target --exclude .git /repo/ %s/repo/" % d)
            path = os.path.join(d, "repo", m["file"])
            lines = open(path).read().split("\n")
            assert lines[m["line"] - 1] == m["old"], (m, lines[m["line"] - 1])
            lines[m["line"] - 1] = m["new"]
            open(path, "w").write("\n".join(lines))
            res = dict(m)
            rc, out = sh("cargo build --release --offline", cwd=d + "/sim", env=self.env, timeout=1200)
            if rc != 0:
                res["status"] = "nobuild"
            else:
                order = [c for c in FIRST.get(m["file"], []) if c in ALL] + [c for c in ALL if c not in FIRST.get(m["file"], [])]
                status = None
                for phase, frac in (("reduced", self.frac), ("full", 1.0)):
                    for id in order:
                        runs = max(8, int(self.sizes[id] * frac)) if (frac < 1.0 and self.sizes.get(id)) else None
                        st, info = self.run_check(id, runs)
                        if st == "killed":
                            status = "killed"
                            res["by"] = id
                            res["phase"] = phase
                            res["what"] = info
                            break
                        if st == "harness":
                            status = "harness-error"
                            res["by"] = id
                            res["what"] = info
                            break
                    if status:
                        break
                if not status:
                    # survived all 20 checks at full quick size: does the repository's suite notice?
                    rc, out = sh(
                        "cargo test --offline --no-fail-fast --lib --test main --test async 2>&1 | grep -E '^test result|FAILED|failed' | head -20",
                        cwd=d + "/repo",
                        env={"CARGO_TARGET_DIR": d + "/rtarget"},
                        timeout=2400,
                    )
                    ok = out.count("test result: ok") >= 3 and "FAILED" not in out
                    status = "survived-suite-passes" if ok else "survived-suite-fails"
                    res["suite"] = out[-400:]
                res["status"] = status
            res["secs"] = round(time.time() - t0, 1)
            res.pop("old_full", None)
            with self.lock:
                with open(self.out, "a") as f:
                    f.write(json.dumps(res) + "\n")
                print("%-22s %4d %-28s %-24s %s %s" % (m["file"], m["line"], m["op"][:28], res["status"], res.get("by", ""), res.get("what", "")[:80]), flush=True)


def main():
    ap = argparse.ArgumentParser()
    ap.add_argument("--n", type=int, default=60)
    ap.add_argument("--seed", type=int, default=1)
    ap.add_argument("--jobs", type=int, default=3)
    ap.add_argument("--frac", type=float, default=0.25)
    ap.add_argument("--out", default=os.path.join(VERIF, "mutscan", "results.jsonl"))
    ap.add_argument("--list", action="store_true")
    ap.add_argument("--ops", default="", help="only operators whose name contains one of these comma-separated strings")
    a = ap.parse_args()
    c = candidates()
    if a.ops:
        keys = a.ops.split(",")
        c = [m for m in c if any(k in m["op"] for k in keys)]
    if a.list:
        from collections import Counter
        print(len(c), "candidates", Counter(x["file"] for x in c))
        return
    random.Random(a.seed).shuffle(c)
    done = set()
    os.makedirs(os.path.dirname(a.out), exist_ok=True)
    if os.path.exists(a.out):
        for l in open(a.out):
            d = json.loads(l)
            done.add((d["file"], d["line"], d["op"], d["new"]))
    queue = [m for m in c[: a.n] if (m["file"], m["line"], m["op"], m["new"]) not in done]
    print("mutscan: %d candidates, %d selected, %d to run" % (len(c), a.n, len(queue)), flush=True)
    shutil.rmtree(SCRATCH, ignore_errors=True)
    os.makedirs(SCRATCH)
    lock = threading.Lock()
    sizes = quick_sizes()
    nw = max(2, (os.cpu_count() or 8) // a.jobs)
    ws = [Worker(i, queue, a.out, lock, sizes, a.frac, nw) for i in range(a.jobs)]
    for w in ws:
        w.start()
    for w in ws:
        w.join()
    shutil.rmtree(SCRATCH, ignore_errors=True)


if __name__ == "__main__":
    main()
