#!/bin/bash
# Post-processing of a seeding wave: confirm every delivered change in its scratch worktree,
# store it under /verif/seeded/<ID><suffix>/, remove the worktrees, then run the quick checks
# against each confirmed change (scratch copies only).   tools/wave.sh <suffix>
set -u
cd "$(dirname "$0")/.." || exit 2
SUF=$1
HEAD=$(git -C /repo log -1 --format=%h)
confirmed=()
for n in $(seq -w 1 20); do
  id=C$n
  [ -d /tmp/seed$SUF-$id ] || continue
  if nice tools/verify_seeded.sh $id $SUF 2>&1 | tail -1 | grep -q CONFIRMED; then
    confirmed+=("seeded/$id$SUF/patch.diff")
    python3 - "$id$SUF" "$HEAD" <<'PY'
import json,sys
f=f'/verif/seeded/{sys.argv[1]}/meta.json'
m=json.load(open(f)); m['base_commit']=sys.argv[2]; json.dump(m,open(f,'w'),indent=1)
PY
    echo "$id$SUF confirmed"
  else
    echo "$id$SUF NOT confirmed"
  fi
  git -C /repo worktree remove --force /tmp/seed$SUF-$id 2>/dev/null
done
git -C /repo worktree prune
[ -n "${SKIP_SENS:-}" ] && exit 0
[ ${#confirmed[@]} -gt 0 ] && nice tools/sensitivity.sh "${confirmed[@]}"
