#!/bin/bash
# Sensitivity runs: apply each deliberate property-breaking patch to a SCRATCH COPY of /repo,
# build a scratch copy of the harness against it and run the quick check(s) named in the patch
# header ("# expect: C01 C12"). /repo itself is never touched. Everything lives under
# $SCRATCH (default /tmp/msql-sens) and is removed at the end.
#   tools/sensitivity.sh [patch files...]      (default: mutants/*.patch seeded/*/patch.diff)
set -u
cd "$(dirname "$0")/.." || exit 2
VERIF=$(pwd)
SCRATCH=${SCRATCH:-/tmp/msql-sens}
RUNS=${SENS_RUNS:-}
rm -rf "$SCRATCH"; mkdir -p "$SCRATCH"
[ -n "${KEEP:-}" ] || trap 'rm -rf "$SCRATCH"' EXIT
patches=("$@")
[ ${#patches[@]} -eq 0 ] && patches=(mutants/*.patch seeded/*/patch.diff)
# scratch copies
rsync -a --exclude target --exclude .git /repo/ "$SCRATCH/repo/"
rsync -a --exclude target "${SIM_SRC:-$VERIF/sim}/" "$SCRATCH/sim/"
mkdir -p "$SCRATCH/fixtures" && rsync -a "$VERIF/fixtures/" "$SCRATCH/fixtures/"
cp "$VERIF/known_findings.json" "$SCRATCH/" 2>/dev/null
cp "$VERIF/properties.jsonl" "$SCRATCH/"
sed -i "s#path = \"/repo\"#path = \"$SCRATCH/repo\"#" "$SCRATCH/sim/Cargo.toml"
export CARGO_TARGET_DIR="$SCRATCH/target" CARGO_NET_OFFLINE=true VERIF_DIR="$SCRATCH"
pass=0; fail=0
printf "%-44s %-8s %s\n" patch check result
for p in "${patches[@]}"; do
  [ -f "$p" ] || continue
  expect=$(grep -m1 '^# expect:' "$p" | sed 's/# expect://')
  [ -z "$expect" ] && expect=$(python3 -c "import json,sys;print(' '.join(json.load(open('$(dirname "$p")/meta.json')).get('expect',[])))" 2>/dev/null)
  rsync -a --delete --exclude target --exclude .git /repo/ "$SCRATCH/repo/"
  if ! (cd "$SCRATCH/repo" && patch -p1 -s < "$VERIF/$p" >/dev/null 2>&1); then
    printf "%-44s %-8s %s\n" "$(basename "$(dirname "$p")")/$(basename "$p")" - "PATCH-DOES-NOT-APPLY"; fail=$((fail+1)); continue
  fi
  if ! (cd "$SCRATCH/sim" && cargo build --release --offline >"$SCRATCH/build.log" 2>&1); then
    printf "%-44s %-8s %s\n" "$p" - "BUILD-FAILED"; tail -5 "$SCRATCH/build.log"; fail=$((fail+1)); continue
  fi
  for id in $expect; do
    out=$(VERIF_RUNS=${RUNS} "$SCRATCH/target/release/simcheck" run "$id" quick 2>&1); rc=$?
    if [ $rc -eq 1 ] && echo "$out" | grep -q "^VIOLATION property=$id"; then
      res="caught: $(echo "$out" | grep -m1 '^  ' | cut -c3-110)"; pass=$((pass+1))
    else
      res="MISSED (exit $rc)"; fail=$((fail+1))
    fi
    printf "%-44s %-8s %s\n" "${p#mutants/}" "$id" "$res"
  done
done
echo "caught=$pass missed_or_broken=$fail"
[ $fail -eq 0 ]
