#!/bin/bash
# Confirms a seeded change delivered by a sub-agent in its scratch worktree /tmp/seed-<ID>:
#   - the repository's own suite still passes with the change,
#   - the demonstration fails with the change and passes without it,
# then stores patch.diff + demo + meta.json under /verif/seeded/<ID>[suffix]/.
#   tools/verify_seeded.sh C06 [suffix]
set -u
ID=$1; SUF=${2:-}
WT=/tmp/seed$SUF-$ID; OUT=/tmp/seed-out/$ID$SUF
lid=$(echo "$ID" | tr A-Z a-z)
DEMO=$(ls $WT/tests/demo_*.rs 2>/dev/null | head -1)
[ -f "$OUT/patch.diff" ] && [ -n "$DEMO" ] || { echo "$ID: deliverables missing"; exit 2; }
DN=$(basename "$DEMO" .rs)
cd $WT || exit 2
export CARGO_NET_OFFLINE=true
# 1. with the change
git diff -- src > /tmp/seed-$ID$SUF.cur.diff
if ! diff -q /tmp/seed-$ID$SUF.cur.diff "$OUT/patch.diff" >/dev/null; then echo "$ID: NOTE worktree diff differs from delivered patch.diff (using worktree diff)"; cp /tmp/seed-$ID$SUF.cur.diff "$OUT/patch.diff"; fi
[ -s "$OUT/patch.diff" ] || { echo "$ID: empty patch"; exit 2; }
suite=$( (cargo test --offline --no-fail-fast --lib --test main --test async 2>&1; cargo test --offline --doc 2>&1) | grep -E "^test result" )
suite_ok=$(echo "$suite" | grep -c "0 failed")
suite_n=$(echo "$suite" | sed -E 's/.*ok\. ([0-9]+) passed.*/\1/' | paste -sd+ | bc)
cargo test --offline --test $DN >/tmp/seed-$ID$SUF.with.log 2>&1; with_rc=$?
# 2. without the change
# (no git stash: the scratch worktrees share one stash list)
git apply -R "$OUT/patch.diff" || { echo "$ID: cannot revert patch"; exit 2; }
cargo test --offline --test $DN >/tmp/seed-$ID$SUF.without.log 2>&1; without_rc=$?
git apply "$OUT/patch.diff" || { echo "$ID: cannot re-apply patch"; exit 2; }
echo "$ID$SUF: suite result lines ok=$suite_ok/4 tests=$suite_n ; demo with change rc=$with_rc ; demo without change rc=$without_rc"
if [ "$suite_ok" = "4" ] && [ "$suite_n" = "165" ] && [ $with_rc -ne 0 ] && [ $without_rc -eq 0 ]; then
  D=/verif/seeded/$ID$SUF; mkdir -p $D
  cp "$OUT/patch.diff" $D/patch.diff; cp "$DEMO" $D/
  python3 - "$ID" "$OUT/meta.json" "$D/meta.json" "$DN" <<'PY'
import json,sys
pid,src,dst,dn=sys.argv[1:5]
try: m=json.load(open(src))
except Exception: m={"property":pid}
m["property"]=pid
m["expect"]=[pid]
m["confirmed_by_framework_author"]={"suite_passes_with_change":True,"suite_tests":165,"demo_fails_with_change":True,"demo_passes_without_change":True,
  "ran":["cargo test --offline --no-fail-fast --lib --test main --test async ; cargo test --offline --doc   (with change: 164 tests + 1 doctest pass)", f"cargo test --offline --test {dn}   (with change: fails; after git apply -R patch.diff: passes)"]}
json.dump(m,open(dst,"w"),indent=1)
PY
  echo "$ID$SUF: CONFIRMED -> $D"
else
  echo "$ID$SUF: NOT CONFIRMED"; tail -5 /tmp/seed-$ID$SUF.with.log; tail -5 /tmp/seed-$ID$SUF.without.log; exit 1
fi
