#!/usr/bin/env python3
"""Regenerates MANIFEST.json from the table below (kept in one place so it stays consistent)."""
import json, sys

CHECKS = {
 "C01": ("exploration", "schedule search: seeded partitions of the client byte stream into read() results x payload size classes; oracle = shim callback log equals the script byte for byte", "6/C01"),
 "C02": ("exploration", "seeded command histories under seeded chunking/pipelining; oracle = callback log equals the reference model's", "6/C02"),
 "C03": ("exploration", "seeded writer programs x command histories; refinement against the reference model through an independent client decoder", "6/C03"),
 "C04": ("exploration", "message sizes around k*(2^24-1) x write-size sequences x short-write/EINTR schedules; independent packet reader + value equality", "6/C04"),
 "C05": ("exploration", "seeded histories x request sequence ids x response lengths; oracle on every response packet id", "6/C05"),
 "C06": ("exploration", "seeded value generation carried over the simulated connection; independent text-row decoder", "6/C06"),
 "C07": ("exploration", "seeded column lists x NULL patterns x values over the simulated connection; independent binary-row decoder", "6/C07"),
 "C08": ("exploration", "seeded parameter blocks (types x flags x length forms x NULL bitmaps) under read chunking; oracle = values and conversions seen by the shim", "6/C08"),
 "C09": ("exploration", "seeded column descriptor lists over the simulated connection; independent definition decoder", "6/C09"),
 "C10": ("exploration", "seeded PREPARE/EXECUTE/LONG_DATA/CLOSE histories; refinement against the reference statement registry", "6/C10"),
 "C11": ("exploration", "seeded handshake responses x configurations x arrival schedules; greeting/auth oracles", "6/C11"),
 "C12": ("exploration", "schedule search over arrival x chunking; invariant checked at every transport read", "6/C12"),
 "C13": ("exploration", "seeded (kind x message x site) over the simulated connection + enumeration of the kind table", "6/C13"),
 "C14": ("exploration", "seeded u64 pairs at lenenc cliffs x program positions; independent OK-packet decoder", "6/C14"),
 "C15": ("exploration", "seeded/swept (Rust type x column type x signedness x value) through binary resultsets", "6/C15"),
 "C16": ("exploration", "seeded rebind/reuse histories over several statements; refinement against the reference registry", "6/C16"),
 "C17": ("exploration", "seeded long-data/execute interleavings; refinement against the reference registry", "6/C17"),
 "C18": ("exploration", "schedule search over the TLS byte stream (split points around the upgrade) x configurations with a seeded rustls CryptoProvider", "6/C18"),
 "C19": ("fault_enumeration", "fault enumeration: for each seeded conversation every transport-operation index and client-byte offset gets EOF / one-off error / persistent error", "6/C19"),
 "C20": ("exploration", "seeded hostile client byte streams (grammar-aware mutation, short-string sweep, random bytes) under seeded chunking", "6/C20"),
}

LEVEL_TEXT = {
 "exploration": "Deterministic simulation: the real run_on/PacketConn/parsers/encoders run against a simulated transport, scripted client and scripted application; a seeded search samples schedules/inputs ({what}). Sampling, not proof: a clean batch is evidence. Failures come with a minimised, exactly replayable Plan.",
 "fault_enumeration": "Deterministic simulation with complete enumeration of fault points per sampled conversation ({what}). The conversations are sampled, the fault points within each are enumerated exhaustively.",
}

NOTE = "Trusted: the harness's own client encoders/decoder and reference model (hand-written from the protocol documentation, sharing no code with msql-srv), rustc/std, and that client-visible = flushed bytes. msql-srv, nom, mysql_common, chrono and rustls are the real code built from /repo's working tree in release mode with overflow-checks and debug-assertions."

def main():
    claimed = sys.argv[1:]
    checks = []
    na = []
    for pid, (cat, what, ref) in CHECKS.items():
        if pid in claimed:
            checks.append({
                "property_id": pid,
                "quick_cmd": f"./check {pid} quick",
                "thorough_cmd": f"./check {pid} thorough",
                "evidence_file": f"/verif/evidence/{pid}.json",
                "replay_cmd_template": "./check replay {path}",
                "engine": "simcheck",
                "level_claimed": {"category": cat, "text": LEVEL_TEXT[cat].format(what=what), "design_ref": f"DESIGN.md section {ref}"},
                "level_note": NOTE,
                "technique": "deterministic simulation with fault injection: " + what,
            })
        else:
            na.append({"property_id": pid, "reason": "check not yet built in this round (the design claims it; see DESIGN.md section " + ref + ")"})
    m = {
        "version": 1,
        "setup_cmd": "./check --build-only",
        "hooks": {
            "guard": "none (no hooks: the seams are the public type parameters RW: Read+Write and B: MysqlShim of run_on)",
            "enable": "n/a - the harness crate /verif/sim depends on /repo by path and builds it unmodified",
            "baseline_off_cmd": "cd /repo && cargo test --workspace --no-fail-fast --offline",
            "source_commits": [],
            "add_only": True,
        },
        "engines": [{
            "name": "simcheck",
            "path": "/verif/sim",
            "serves_properties": claimed,
            "kind_free_text": "deterministic connection simulator: SimStream (transport + scripted client model), SimShim (writer-program interpreter), reference model, independent decoder, seeded batch runner with minimiser and replay",
        }],
        "checks": checks,
        "not_applicable": na,
        "notes": "All commands rebuild the harness against /repo's working tree (path dependency). VERIF_SEED selects the batch (default 20260104); VERIF_RUNS overrides the count-limited batch size; exit 2 = harness error.",
    }
    json.dump(m, open("MANIFEST.json", "w"), indent=1)
    print("claimed", len(checks), "not_applicable", len(na))

main()
