#!/bin/bash
# Determinism self-test: every check's first N jobs, executed in separate processes and under
# different seeds; outputs (per-job trace digests) must be identical run to run.
set -u
cd "$(dirname "$0")/.." || exit 2
N=${1:-40}
BIN=sim/target/release/simcheck
T=$(mktemp -d)
rc=0
for seed in 20260104 1 987654321; do
  VERIF_SEED=$seed $BIN selftest "$N" > "$T/a.$seed" || rc=2
  VERIF_SEED=$seed $BIN selftest "$N" > "$T/b.$seed" || rc=2
  if ! cmp -s "$T/a.$seed" "$T/b.$seed"; then
    echo "DETERMINISM MISMATCH for seed $seed"; diff "$T/a.$seed" "$T/b.$seed" | head; rc=2
  fi
  echo "seed $seed: $(wc -l < "$T/a.$seed") job digests identical across two processes"
done
rm -rf "$T"
exit $rc
