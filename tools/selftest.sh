#!/bin/bash
# Determinism self-test.
#  1. every check's first N jobs, executed in separate processes and under different seeds; the
#     outputs (per-job trace digests) must be identical run to run;
#  2. whole batches of a few checks at several worker counts: the order-independent batch digest
#     (job, sub-run, transport operations, bytes each way, callbacks, replies, how the run ended)
#     must not depend on the number of workers or on how they were scheduled.
set -u
cd "$(dirname "$0")/.." || exit 2
N=${1:-40}
BIN=sim/target/release/simcheck
T=$(mktemp -d)
rc=0
for seed in 20260104 1 987654321; do
  VERIF_SEED=$seed $BIN selftest "$N" > "$T/a.$seed" || rc=2
  VERIF_SEED=$seed $BIN selftest "$N" > "$T/b.$seed" || rc=2
  if ! cmp -s "$T/a.$seed" "$T/b.$seed"; then
    echo "DETERMINISM MISMATCH for seed $seed"; diff "$T/a.$seed" "$T/b.$seed" | head; rc=2
  fi
  echo "seed $seed: $(wc -l < "$T/a.$seed") job digests identical across two processes"
done
for id in C03 C08 C13 C18 C19 C20; do
  runs=10000; [ "$id" = C19 ] && runs=6
  ref=""
  for w in 16 3; do
    mkdir -p "$T/ev$w"
    VERIF_DIR="$T/ev$w" VERIF_SEED=77 VERIF_RUNS=$runs VERIF_WORKERS=$w $BIN run "$id" quick > "$T/out" 2>&1 || { echo "selftest: $id failed at $w workers"; tail -3 "$T/out"; rc=2; }
    d=$(python3 -c "import json,sys;print(json.load(open('$T/ev$w/evidence/$id.json'))['coverage']['batch_digest'])" 2>/dev/null)
    [ -z "$ref" ] && ref=$d
    if [ -z "$d" ] || [ "$d" != "$ref" ]; then echo "DETERMINISM MISMATCH: $id batch digest '$d' at $w workers, '$ref' at 16"; rc=2; fi
  done
  echo "$id: batch digest $ref identical at 16 and 3 workers ($runs jobs)"
done
rm -rf "$T"
exit $rc
