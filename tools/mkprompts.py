#!/usr/bin/env python3
"""Writes the briefs for a wave of seeding sub-agents:  tools/mkprompts.py <suffix> C02 C04 ...
One file /tmp/seed-out/prompt<suffix>-<ID>.txt per property. A brief holds only the text of the
property, the summaries of the changes earlier agents already made for it (so that the new one
differs in kind), and the adversarial instructions; nothing else from /verif.
The agent works in /tmp/seed<suffix>-<ID> (create it with
  git -C /repo worktree add --detach /tmp/seed<suffix>-<ID> HEAD; cp -r /repo/target /tmp/seed<suffix>-<ID>/target)
and delivers into /tmp/seed-out/<ID><suffix>/, where tools/verify_seeded.sh / tools/wave.sh pick it up."""
import glob
import json
import os
import sys

suf = sys.argv[1]
ids = sys.argv[2:]
props = {}
for l in open('/verif/properties.jsonl'):
    p = json.loads(l)
    props[p['id']] = p

COVERS = (
    "Assume the crate is checked by a tool that drives MysqlIntermediary::run_on over an in-memory transport with hundreds of thousands of randomly generated conversations "
    "(all command kinds, random values of every type, random read chunking, short writes, injected I/O errors with OS error codes at every operation, TLS sometimes, with client certificates and big ClientHellos), "
    "decodes everything the server sends with an independent protocol decoder, and compares callbacks and replies with a reference model. "
    "It ALSO covers: counts and lengths around 250/251/256/65535/65536/2^24-1/2^32 (rows, columns, parameters, statements, packets per message, bytes per value, long-data chunks, commands of 64 MiB); "
    "shims that consume only some of their parameters (take(n), skip(n), none), that write rows partly with write_col and partly with write_row, that share one schema slice between resultsets, "
    "that carry on after a refused row, that report an error and then return their own, that panic in the middle of a response, that drop writers without finishing them; "
    "statement id 0xFFFFFFFF, ids equal modulo 65536, closed and re-prepared statements, stale executions, unsupported statement commands (RESET, FETCH); "
    "comment-tagged queries, housekeeping statements such as SELECT DATABASE() and SELECT @@session.x, USE with odd names, COM_FIELD_LIST with wildcards; "
    "reserved bytes and collations of the handshake; sub-microsecond temporal values, dates outside MySQL's domain, integers around powers of ten and of two; "
    "the TCP entry point run_on_tcp over a real loopback socket (clients that send before the greeting, that never close first). "
    "Do NOT rely on real time (timeouts, sleeps), on probabilities of 2^-32, or on state shared between connections: those are out of scope. "
)

for pid in ids:
    p = props[pid]
    lid = pid.lower()
    earlier = []
    for d in sorted(glob.glob(f'/verif/seeded/{pid}*/meta.json')) + sorted(glob.glob(f'/verif/seeded/retired/{pid}*/meta.json')):
        try:
            s = json.load(open(d)).get('summary', '')
        except Exception:
            continue
        if s:
            earlier.append(s.replace('\n', ' ')[:350])
    listing = ''.join(f'  ({k+1}) "{s}"\n' for k, s in enumerate(earlier))
    wt = f'/tmp/seed{suf}-{pid}'
    out = f'/tmp/seed-out/{pid}{suf}'
    txt = f"""You are helping to test a verification framework for the Rust crate `msql-srv` (a library that speaks the server side of the MySQL wire protocol and delegates queries to a user-supplied "shim").

You have your own scratch git worktree of the crate at {wt} (a detached checkout of the current code; a pre-built `target/` directory is already there so builds are incremental). Work ONLY inside {wt} and write your results to {out}/. Do NOT read or touch /repo, /verif or any other /tmp/seed* directory. There is no network: always pass `--offline` to cargo. Other work is running on this machine: do not start more than one cargo command at a time.

The crate is supposed to satisfy this property:

  Title: {p['title']}
  Statement: {p['statement']}
  Scope: {p['quantifier']['text']}

YOUR TASK: produce ONE realistic change (a bug a maintainer could plausibly introduce in a refactor, a feature or an "optimisation") to the crate's source under src/ that BREAKS this property, while
  (a) the crate still compiles (`cargo build --offline`), and
  (b) the crate's whole existing test-suite still passes unchanged: `cargo test --workspace --no-fail-fast --offline` (164 tests + 1 doctest; do not edit, add to or delete the existing tests/ files or the #[cfg(test)] modules to make it pass).
The change must need something SPECIFIC to manifest, so that ordinary use does not expose it at once. Do not make a change that breaks the common path (the existing tests would catch that). Keep the change small (a few lines to a few dozen). Do not add cfg flags, environment variables or randomness to hide it.

Earlier helpers already produced these changes for this property; yours must differ from all of them IN KIND (another code site, another mechanism, another trigger):
{listing}
This time, play the ADVERSARY of an automated checker. {COVERS}Design your change so that such a tool would most plausibly MISS it while it still clearly breaks THIS property for a real client: rarely combined features, exact coincidences between two independent quantities (a length equal to a count, a sequence id equal to a flag byte, a buffer fill level equal to a packet boundary), behaviour that depends on what happened several commands earlier, fields most decoders skip, or a specific usage pattern of the writer API. Find something it still does not look at. Quote in meta.json the clause of the statement your change violates.

Also write a DEMONSTRATION that shows the breakage: a new integration test file tests/demo_{lid}.rs (you may use the crate's dev-dependencies such as `mysql`, and/or drive `MysqlIntermediary::run_on` directly with an in-memory `Read + Write` stream of your own, which is usually the easiest way to control read chunking, faults and exact bytes). The demonstration must FAIL with your change applied and PASS on the original code. Verify both yourself: run it with the change, then save `git diff -- src > /tmp/seed-out/{pid}{suf}/patch.diff`, revert it with `git apply -R /tmp/seed-out/{pid}{suf}/patch.diff` (do NOT use git stash), run the demonstration again, then re-apply with `git apply /tmp/seed-out/{pid}{suf}/patch.diff`.

Deliverables, all under {out}/ :
  1. patch.diff  — output of `git diff -- src` in {wt} (the source change only, NOT the demo file);
  2. demo_{lid}.rs — a copy of your demonstration test file;
  3. meta.json — {{"property": "{pid}", "summary": "<one paragraph: what the change does>", "needs": "<what specific condition is needed for it to manifest>", "violated_clause": "<quoted>", "demo_cmd": "cargo test --offline --test demo_{lid}", "verified": {{"suite_passes_with_change": true/false, "demo_fails_with_change": true/false, "demo_passes_without_change": true/false}}}}.
Leave the worktree with your change applied and the demo file present. In your final message, give a short summary (what you changed, what it needs to manifest, and the three verification results).
"""
    os.makedirs(out, exist_ok=True)
    open(f'/tmp/seed-out/prompt{suf}-{pid}.txt', 'w').write(txt)
    print(pid, len(txt), 'bytes,', len(earlier), 'earlier changes listed')
