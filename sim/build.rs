// Extracts the ErrorKind variant table from the msql-srv dependency's src/errorcodes.rs so that
// the harness follows additions/removals of kinds without edits.
use std::env;
use std::fs;
use std::path::PathBuf;

fn main() {
    let manifest = fs::read_to_string("Cargo.toml").expect("read Cargo.toml");
    let mut dir = env::var("MSQL_SRV_DIR").ok();
    if dir.is_none() {
        for line in manifest.lines() {
            let l = line.trim();
            if l.starts_with("msql-srv") {
                if let Some(i) = l.find("path") {
                    let rest = &l[i..];
                    let a = rest.find('"').unwrap();
                    let b = rest[a + 1..].find('"').unwrap();
                    dir = Some(rest[a + 1..a + 1 + b].to_string());
                }
            }
        }
    }
    let dir = dir.expect("msql-srv path dependency not found");
    let src = PathBuf::from(&dir).join("src/errorcodes.rs");
    println!("cargo:rerun-if-changed={}", src.display());
    println!("cargo:rerun-if-changed=Cargo.toml");
    println!("cargo:rerun-if-env-changed=MSQL_SRV_DIR");
    let text = fs::read_to_string(&src).expect("read errorcodes.rs");
    let mut in_enum = false;
    let mut kinds: Vec<(String, u32)> = Vec::new();
    for line in text.lines() {
        if !in_enum {
            if line.starts_with("pub enum ErrorKind") {
                in_enum = true;
            }
            continue;
        }
        if line.starts_with('}') {
            break;
        }
        let l = line.trim();
        if l.starts_with("//") || l.starts_with('#') || l.is_empty() {
            continue;
        }
        if let Some((name, rest)) = l.split_once('=') {
            let name = name.trim();
            let num = rest.trim().trim_end_matches(',').trim();
            if let Ok(n) = num.parse::<u32>() {
                if name.chars().all(|c| c.is_ascii_alphanumeric() || c == '_') {
                    kinds.push((name.to_string(), n));
                }
            }
        }
    }
    assert!(!kinds.is_empty(), "no ErrorKind variants found in {}", src.display());
    let mut out = String::new();
    out.push_str("pub static KINDS: &[(&str, u16, msql_srv::ErrorKind)] = &[\n");
    for (n, c) in &kinds {
        out.push_str(&format!("    (\"{}\", {}, msql_srv::ErrorKind::{}),\n", n, c, n));
    }
    out.push_str("];\n");
    let dst = PathBuf::from(env::var("OUT_DIR").unwrap()).join("kinds_gen.rs");
    fs::write(dst, out).unwrap();
}
