//! Batch runner: seeded jobs on worker threads, statistics, evidence, minimisation, replay.

use crate::judge::{self, Violation};
use crate::plan::*;
use crate::rng::{self, Rng};
use crate::sim::{self, Outcome, RunEnd};
use crate::stream::Ev;
use serde::{Deserialize, Serialize};
use serde_json::json;
use std::collections::{BTreeMap, HashSet};
use std::sync::atomic::{AtomicBool, AtomicU64, Ordering};
use std::sync::Mutex;
use std::time::Instant;

#[derive(Clone, Copy, Debug, PartialEq, Eq)]
pub enum Tier {
    Quick,
    Thorough,
}

impl Tier {
    pub fn name(self) -> &'static str {
        match self {
            Tier::Quick => "quick",
            Tier::Thorough => "thorough",
        }
    }
}

/// A property check: a job generator plus the set of oracle rules it reports.
pub trait Check: Sync {
    fn id(&self) -> &'static str;
    fn level(&self) -> &'static str {
        "exploration"
    }
    fn decided_by(&self) -> &'static str;
    fn rule_text(&self) -> &'static str;
    /// number of jobs for the tier (count-limited batches)
    fn jobs(&self, tier: Tier) -> u64;
    /// calibrated wall-clock budget in seconds (guard = 4x)
    fn budget_s(&self, tier: Tier) -> u64 {
        match tier {
            Tier::Quick => 60,
            Tier::Thorough => 600,
        }
    }
    /// run one job; every plan goes through ctx.eval
    fn run_job(&self, rng: &mut Rng, tier: Tier, job: u64, ctx: &mut JobCtx<'_>);
    /// which oracle rules count as violations of this property
    fn owns(&self, rule: &str) -> bool;
    /// property-specific oracles in addition to judge::all
    fn extra_judge(&self, _plan: &Plan, _out: &Outcome, _vs: &mut Vec<Violation>) {}
    /// side checks that are not simulation runs (enumeration over tables etc.)
    fn side_checks(&self, _side: &mut BTreeMap<String, serde_json::Value>, _vs: &mut Vec<(String, Violation)>) {}
    fn assumptions(&self) -> Vec<&'static str> {
        vec![]
    }
    fn probes(&self) -> &'static [&'static str] {
        &[]
    }
}

#[derive(Clone, Debug, Serialize, Deserialize)]
pub struct Signature {
    pub rule: String,
    pub site: String,
}

#[derive(Clone, Debug)]
pub struct Failure {
    pub job: u64,
    pub sub: u32,
    pub plan: Plan,
    pub violation: Violation,
}

#[derive(Default)]
pub struct Stats {
    pub evaluations: u64,
    pub nontrivial: u64,
    pub plan_sigs: HashSet<u64>,
    pub trace_shapes: HashSet<u64>,
    pub sig_capped: bool,
    pub ops: u64,
    pub client_bytes: u64,
    pub server_bytes: u64,
    pub counters: BTreeMap<&'static str, u64>,
    pub other_rule_hits: BTreeMap<String, u64>,
    pub ends: BTreeMap<&'static str, u64>,
    pub samples: Vec<(u64, serde_json::Value)>,
    pub failures: Vec<Failure>,
    pub known_hits: BTreeMap<String, (u64, String)>,
    pub determinism_checked: u64,
    pub determinism_mismatch: Vec<u64>,
    /// order-independent digest of every run of the batch (job, sub-run, what happened): equal
    /// for equal (code, seed, tier, batch size) whatever the worker count or scheduling of workers
    pub digest: u64,
}

const SIG_CAP: usize = 3_000_000;
/// an evaluation never takes this much CPU time unless the code under test spins
pub const WEDGE_S: u64 = 90;

impl Stats {
    pub fn bump(&mut self, k: &'static str, n: u64) {
        *self.counters.entry(k).or_insert(0) += n;
    }
    fn merge(&mut self, o: Stats) {
        self.evaluations += o.evaluations;
        self.nontrivial += o.nontrivial;
        self.sig_capped |= o.sig_capped;
        for s in o.plan_sigs {
            if self.plan_sigs.len() < SIG_CAP * 2 {
                self.plan_sigs.insert(s);
            } else {
                self.sig_capped = true;
            }
        }
        for s in o.trace_shapes {
            if self.trace_shapes.len() < SIG_CAP * 2 {
                self.trace_shapes.insert(s);
            }
        }
        self.ops += o.ops;
        self.client_bytes += o.client_bytes;
        self.server_bytes += o.server_bytes;
        for (k, v) in o.counters {
            *self.counters.entry(k).or_insert(0) += v;
        }
        for (k, v) in o.other_rule_hits {
            *self.other_rule_hits.entry(k).or_insert(0) += v;
        }
        for (k, v) in o.ends {
            *self.ends.entry(k).or_insert(0) += v;
        }
        self.samples.extend(o.samples);
        self.failures.extend(o.failures);
        for (k, v) in o.known_hits {
            let e = self.known_hits.entry(k).or_insert((0, v.1.clone()));
            e.0 += v.0;
        }
        self.determinism_checked += o.determinism_checked;
        self.determinism_mismatch.extend(o.determinism_mismatch);
        self.digest = self.digest.wrapping_add(o.digest);
    }
}

pub struct JobCtx<'a> {
    pub check: &'a dyn Check,
    pub known: &'a Known,
    pub stats: Stats,
    pub job: u64,
    pub sub: u32,
    pub want_sample: bool,
    pub det_check: bool,
    pub stop_on_fail: bool,
    pub planlog: Option<std::path::PathBuf>,
    /// progress counter watched by the batch watchdog (bumped at every evaluation)
    pub hb: Option<&'a AtomicU64>,
}

#[derive(Clone, Debug, Default, Serialize, Deserialize)]
pub struct KnownEntry {
    pub property: String,
    pub rule: String,
    /// prefix of the violation site
    pub site: String,
    pub what: String,
}

#[derive(Clone, Debug, Default, Serialize, Deserialize)]
pub struct Known {
    #[serde(default)]
    pub known: Vec<KnownEntry>,
    #[serde(default)]
    pub fixed: Vec<String>,
}

impl Known {
    pub fn load() -> Known {
        let p = verif_dir().join("known_findings.json");
        match std::fs::read_to_string(&p) {
            Ok(s) => serde_json::from_str(&s).unwrap_or_else(|e| {
                eprintln!("harness: cannot parse {}: {}", p.display(), e);
                std::process::exit(2)
            }),
            Err(_) => Known::default(),
        }
    }
    pub fn matches(&self, prop: &str, v: &Violation) -> Option<&KnownEntry> {
        self.known
            .iter()
            .find(|k| k.property == prop && k.rule == v.rule && v.site.starts_with(&k.site))
    }
}

pub fn verif_dir() -> std::path::PathBuf {
    if let Ok(d) = std::env::var("VERIF_DIR") {
        return d.into();
    }
    // the binary lives in <verif>/sim/target/release/
    let exe = std::env::current_exe().unwrap_or_default();
    let mut p = exe.clone();
    for _ in 0..4 {
        p.pop();
    }
    if p.join("properties.jsonl").exists() {
        return p;
    }
    "/verif".into()
}

/// judge one outcome for a property: shared oracles + extras, split into owned / other
pub fn judge_for(check: &dyn Check, plan: &Plan, out: &Outcome) -> (Vec<Violation>, Vec<Violation>) {
    let mut vs = judge::all(plan, out);
    check.extra_judge(plan, out, &mut vs);
    for (site, detail) in crate::tcpdiff::judge(plan, out) {
        vs.push(Violation {
            rule: "tcp-differs",
            site,
            detail,
        });
    }
    let mut mine = Vec::new();
    let mut other = Vec::new();
    for v in vs {
        // a run that never ends is every property's business (like a process-level death)
        if check.owns(v.rule) || v.rule == "wedged" || v.rule == "tcp-differs" {
            mine.push(v);
        } else {
            other.push(v);
        }
    }
    (mine, other)
}

fn size_class(n: usize) -> u8 {
    match n {
        0 => 0,
        1 => 1,
        2..=7 => 2,
        8..=250 => 3,
        251..=4095 => 4,
        4096..=65_535 => 5,
        65_536..=16_777_214 => 6,
        _ => 7,
    }
}

pub fn plan_sig(plan: &Plan) -> u64 {
    let mut parts: Vec<u64> = Vec::with_capacity(8 + plan.cmds.len() * 3);
    parts.push(plan.cfg.tls_offered as u64 | (plan.cfg.tls.is_some() as u64) << 1 | (plan.cfg.auth_reject.is_some() as u64) << 2 | (plan.cfg.default_on_init as u64) << 3);
    parts.push(match &plan.handshake.body {
        HsBody::V41 { user, tail, .. } => 1 + ((size_class(user.len()) as u64) << 4) + ((size_class(tail.len()) as u64) << 8),
        HsBody::V320 { user, .. } => 2 + ((size_class(user.len()) as u64) << 4),
        HsBody::Raw(b) => 3 + ((size_class(b.len()) as u64) << 4),
    });
    for c in &plan.cmds {
        let (k, sz) = match &c.kind {
            CmdKind::Query(b) => (1u64, b.len()),
            CmdKind::Prepare(b) => (2, b.len()),
            CmdKind::InitDb(b) => (3, b.len()),
            CmdKind::FieldList(b) => (4, b.len()),
            CmdKind::Ping => (5, 0),
            CmdKind::Quit => (6, 0),
            CmdKind::Close(_) => (7, 0),
            CmdKind::Execute { block, .. } => (8 + ((block.bind.is_some() as u64) << 8), block.values.len()),
            CmdKind::LongData { data, .. } => (9, data.len()),
            CmdKind::Raw(b) => (10, b.len()),
            CmdKind::Unsupported(b) => (11, b.len()),
        };
        parts.push(k | (size_class(sz) as u64) << 12 | (c.seq as u64) << 20);
        parts.push(act_sig(&c.act));
    }
    parts.push(match &plan.reads.tail {
        Tail::All => 1,
        Tail::Fixed(n) => 2 + ((size_class(*n as usize) as u64) << 4),
        Tail::Cycle(v) => 3 + ((v.len() as u64) << 4),
        Tail::Hash { max, .. } => 4 + ((size_class(*max as usize) as u64) << 4),
    } | ((plan.reads.cuts.len().min(15) as u64) << 12) | ((plan.reads.explicit.len().min(15) as u64) << 16));
    parts.push(rng::mix(&plan.arrival.batches.iter().map(|b| *b as u64).collect::<Vec<_>>()) ^ plan.arrival.with_handshake as u64);
    parts.push(rng::mix(&plan.writes.accept.iter().map(|b| size_class(*b as usize) as u64).collect::<Vec<_>>()) ^ ((plan.writes.eintr_at.len() as u64) << 32));
    for f in &plan.faults {
        parts.push(match (&f.at, &f.kind) {
            (FaultAt::Op(k), FaultKind::Err(e)) => 100 + k * 16 + *e as u64,
            (FaultAt::Op(k), FaultKind::Eof) => 200 + k * 16,
            (FaultAt::Op(k), FaultKind::ZeroWrite) => 300 + k * 16,
            (FaultAt::ClientByte(k), _) => 400 + k * 16,
            (FaultAt::Read(k), _) => 500 + k * 16,
            (FaultAt::Flush(k), _) => 600 + k * 16,
            (FaultAt::TlsCleanClose(k), _) => 700 + k * 16,
        } ^ ((f.persistent as u64) << 60));
    }
    parts.push(plan.mutations.len() as u64 ^ ((plan.raw_client.as_ref().map(|b| b.len()).unwrap_or(0) as u64) << 8));
    rng::mix(&parts)
}

fn cell_sig(c: &Cell) -> u64 {
    match c {
        Cell::Bytes(b) | Cell::VecBytes(b) | Cell::Str(b) | Cell::String(b) => {
            rng::fnv(judge::cell_kind(c).as_bytes()) ^ size_class(b.len()) as u64
        }
        Cell::Some(i) => cell_sig(i).rotate_left(7),
        o => rng::fnv(judge::cell_kind(o).as_bytes()),
    }
}

fn act_sig(a: &Act) -> u64 {
    match a {
        Act::None => 0,
        Act::Init(InitAct::Ok) => 1,
        Act::Init(InitAct::Error { kind, msg }) => 2 + ((*kind as u64) << 8) + ((size_class(msg.len()) as u64) << 32),
        Act::Init(InitAct::ReturnErr(_)) => 3,
        Act::Prepare(PrepAct::Reply { params, cols, .. }) => {
            4 + ((params.len() as u64) << 8) + ((cols.len() as u64) << 24)
        }
        Act::Prepare(PrepAct::Error { kind, .. }) => 5 + ((*kind as u64) << 8),
        Act::Prepare(PrepAct::ReturnErr(_)) => 6,
        Act::Program(p) => {
            let mut parts = vec![7u64, p.ret_err.map(|x| x.0 as u64 + 1).unwrap_or(0)];
            for u in &p.units {
                match u {
                    Unit::Count { affected, last_id } => {
                        parts.push(1 + ((size_class(*affected as usize) as u64) << 4) + ((size_class(*last_id as usize) as u64) << 8))
                    }
                    Unit::BulkRows { n } => parts.push(3 + ((64 - n.leading_zeros() as u64) << 4)),
                    Unit::Rows(r) => {
                        parts.push(
                            2 + ((r.cols.len() as u64) << 4)
                                + ((r.rows.len() as u64) << 24)
                                + ((r.write_row as u64) << 40)
                                + ((r.last_row_ended as u64) << 41)
                                + ((r.contra.is_some() as u64) << 42)
                                + ((match &r.close {
                                    Close::FinishOne => 0u64,
                                    Close::Finish => 1,
                                    Close::Drop => 2,
                                    Close::FinishError { .. } => 3,
                                }) << 44),
                        );
                        for c in &r.cols {
                            parts.push(c.coltype as u64 | (c.flags as u64) << 8);
                        }
                        for row in &r.rows {
                            for c in row {
                                parts.push(cell_sig(c));
                            }
                        }
                    }
                }
            }
            parts.push(match &p.end {
                End::Implicit => 1,
                End::NoMoreResults => 2,
                End::DropWriter => 3,
                End::Error { kind, .. } => 4 + ((*kind as u64) << 8),
            });
            rng::mix(&parts)
        }
    }
}

pub fn trace_shape(out: &Outcome) -> u64 {
    let mut h: u64 = 0x1234_5678_9abc_def0;
    let mut step = |x: u64| {
        h = (h ^ x).wrapping_mul(0x100_0000_01b3).rotate_left(5);
    };
    for e in &out.w.events {
        match e {
            Ev::Read { got, .. } => step(1 | (size_class(*got as usize) as u64) << 8),
            Ev::ReadEof { .. } => step(2),
            Ev::ReadErr { kind, .. } => step(3 | (*kind as u64) << 8),
            Ev::Write { req, got, .. } => step(4 | (size_class(*got as usize) as u64) << 8 | ((req != got) as u64) << 16),
            Ev::WriteErr { kind, .. } => step(5 | (*kind as u64) << 8),
            Ev::Flush { .. } => step(6),
            Ev::FlushErr { kind, .. } => step(7 | (*kind as u64) << 8),
            Ev::Release { .. } => step(8),
            Ev::Stall { .. } => step(9),
            Ev::Cb { idx, .. } => step(10 | (out.w.callbacks[*idx as usize].1.kind().len() as u64) << 8),
            Ev::Fault { .. } => step(11),
        }
    }
    step(match &out.end {
        RunEnd::Ok => 1,
        RunEnd::IoErr { .. } => 2,
        RunEnd::Token(_) => 3,
        RunEnd::Panic { .. } => 4,
    });
    h
}

/// full-fidelity hash of a run (determinism self-check)
pub fn trace_hash(out: &Outcome) -> u64 {
    let mut h = rng::fnv(format!("{:?}", out.w.events).as_bytes());
    h ^= rng::fnv(&out.w.wire_s).rotate_left(13);
    h ^= rng::fnv(&out.w.sbytes).rotate_left(29);
    h ^= rng::fnv(format!("{:?}", out.end).as_bytes()).rotate_left(41);
    for (op, cb) in &out.w.callbacks {
        h = h.rotate_left(3) ^ rng::fnv(format!("{} {:?}", op, cb).as_bytes());
    }
    for a in &out.w.api {
        h = h.rotate_left(5) ^ rng::fnv(format!("{:?}", a).as_bytes());
    }
    h
}

pub fn compact_plan(plan: &Plan) -> serde_json::Value {
    let mut s = serde_json::to_value(plan).unwrap_or(json!(null));
    shorten(&mut s);
    s
}

fn shorten(v: &mut serde_json::Value) {
    match v {
        serde_json::Value::String(s) if s.len() > 96 => {
            let n = s.len();
            *s = format!("{}…({} hex chars)", &s[..64], n);
        }
        serde_json::Value::Array(a) => {
            let n = a.len();
            if n > 12 {
                a.truncate(8);
                a.push(json!(format!("…({} items)", n)));
            }
            for x in a {
                shorten(x)
            }
        }
        serde_json::Value::Object(o) => {
            for (_, x) in o.iter_mut() {
                shorten(x)
            }
        }
        _ => {}
    }
}

impl<'a> JobCtx<'a> {
    /// simulate + judge one plan; returns the violations owned by the property
    pub fn eval(&mut self, plan: &Plan) -> Vec<Violation> {
        let (out, mine) = self.eval_out(plan);
        drop(out);
        mine
    }

    pub fn eval_out(&mut self, plan: &Plan) -> (Outcome, Vec<Violation>) {
        if let Some(path) = &self.planlog {
            // post-mortem mode: remember the plan about to run (the process may not survive it)
            let _ = std::fs::write(path, serde_json::to_string(plan).unwrap_or_default());
        }
        if let Some(h) = self.hb {
            // progress: the low 32 bits carry job+1, the high bits count evaluations
            h.fetch_add(1 << 32, Ordering::Relaxed);
        }
        let out = sim::simulate(plan);
        let (mine, other) = judge_for(self.check, plan, &out);
        let st = &mut self.stats;
        st.evaluations += 1;
        st.ops += out.w.op;
        st.client_bytes += out.w.wire_delivered;
        st.server_bytes += out.w.wire_written;
        *st.ends.entry(out.end.class()).or_insert(0) += 1;
        st.digest = st.digest.wrapping_add(rng::mix(&[
            self.job,
            self.sub as u64,
            out.w.op,
            out.w.wire_delivered,
            out.w.wire_written,
            out.w.callbacks.len() as u64,
            out.w.answered as u64,
            rng::fnv(out.end.class().as_bytes()),
        ]));
        let nontrivial = out.w.callbacks.len() > 1 || out.w.answered > 1 || out.w.fault_fired.is_some() || out.model.hostile;
        if nontrivial {
            st.nontrivial += 1;
            if st.plan_sigs.len() < SIG_CAP {
                st.plan_sigs.insert(plan_sig(plan));
            } else {
                st.sig_capped = true;
            }
            if st.trace_shapes.len() < SIG_CAP {
                st.trace_shapes.insert(trace_shape(&out));
            }
        }
        probes(plan, &out, st);
        for o in &other {
            *st.other_rule_hits.entry(o.rule.to_string()).or_insert(0) += 1;
        }
        // every 50th job is run twice and the traces compared; in jobs that enumerate many runs
        // (C19's conversations, the sweeps of C15 and C20) every 50th run of every job instead, so
        // that the number of re-checked runs does not depend on which conversations a seed draws
        let det = if self.sub == 0 { self.det_check } else { (self.job + self.sub as u64) % 50 == 7 };
        if det {
            let h1 = trace_hash(&out);
            let out2 = sim::simulate(plan);
            st.determinism_checked += 1;
            if trace_hash(&out2) != h1 {
                st.determinism_mismatch.push(self.job);
            }
        }
        if self.want_sample && st.samples.len() < 2 {
            let mut s = compact_plan(plan);
            if let serde_json::Value::Object(o) = &mut s {
                o.insert("_run".into(), json!({"job": self.job, "sub": self.sub, "end": out.end.class(), "ops": out.w.op, "callbacks": out.w.callbacks.len()}));
            }
            st.samples.push((self.job, s));
        }
        let mut reported = Vec::new();
        for v in mine {
            if let Some(k) = self.known.matches(self.check.id(), &v) {
                let key = format!("{} | {} | {}", k.rule, k.site, k.what);
                let e = st.known_hits.entry(key).or_insert((0, v.detail.clone()));
                e.0 += 1;
            } else {
                reported.push(v);
            }
        }
        if let Some(v) = reported.first() {
            if st.failures.len() < 4 {
                st.failures.push(Failure {
                    job: self.job,
                    sub: self.sub,
                    plan: plan.clone(),
                    violation: v.clone(),
                });
            }
        }
        self.sub += 1;
        (out, reported)
    }
}

/// reach probes (never change the verdict)
fn probes(plan: &Plan, out: &Outcome, st: &mut Stats) {
    let w = &out.w;
    if w.eintr_fired > 0 {
        st.bump("fault.write_interrupted_benign", w.eintr_fired as u64);
    }
    if w.short_writes > 0 {
        st.bump("fault.short_write", w.short_writes as u64);
    }
    if w.fault_fired.is_some() {
        st.bump("fault.fired_runs", 1);
    }
    if w.eof_injected {
        st.bump("fault.eof", 1);
    }
    let mut last_read_end: Option<u64> = None;
    let mut reads_since_cb = 0u32;
    for e in &w.events {
        match e {
            Ev::Read { got, off, .. } => {
                reads_since_cb += 1;
                last_read_end = Some(off + *got as u64);
                if *got == 1 {
                    st.bump("read.one_byte", 1);
                }
            }
            Ev::Cb { .. } => {
                if reads_since_cb >= 3 {
                    st.bump("probe.parse_retried_3plus", 1);
                }
                reads_since_cb = 0;
            }
            Ev::ReadErr { kind, .. } if *kind == IoKind::Interrupted => st.bump("fault.read_interrupted", 1),
            Ev::ReadErr { .. } => st.bump("fault.read_err", 1),
            Ev::WriteErr { kind, .. } if *kind != IoKind::Interrupted => st.bump("fault.write_err", 1),
            Ev::WriteErr { .. } => st.bump("fault.write_interrupted", 1),
            Ev::FlushErr { kind, .. } if *kind == IoKind::Interrupted => st.bump("fault.flush_interrupted", 1),
            Ev::FlushErr { .. } => st.bump("fault.flush_err", 1),
            Ev::Stall { .. } => st.bump("probe.stall", 1),
            _ => {}
        }
    }
    let _ = last_read_end;
    // position classes of read boundaries relative to unit ends
    if !w.hostile {
        let mut spans = 0;
        for e in &w.events {
            if let Ev::Read { got, off, .. } = e {
                let a = *off as usize;
                let b = a + *got as usize;
                let inside = w.unit_ends.iter().filter(|u| **u > a && **u < b).count();
                if inside >= 1 {
                    spans += 1;
                }
                if w.unit_ends.contains(&b) {
                    st.bump("probe.read_ended_at_command_end", 1);
                }
                // header bytes: first four bytes after a unit end
                for u in std::iter::once(&0usize).chain(w.unit_ends.iter()) {
                    if b > *u && b < *u + 4 {
                        st.bump("probe.read_ended_inside_header", 1);
                    }
                }
            }
        }
        if spans > 0 {
            st.bump("probe.read_spanned_2plus_commands", spans);
        }
    }
    let maxmsg = w.replies.iter().flatten().flatten().map(|d| d.max_msg).max().unwrap_or(0);
    if maxmsg >= 0xFF_FFFF {
        st.bump("probe.outbound_msg_ge_16m", 1);
    }
    for d in w.replies.iter().flatten().flatten() {
        if d.seqs.len() > 255 {
            st.bump("probe.outbound_seq_wrapped", 1);
        }
        if let crate::dec::DecResp::Units(us) = &d.resp {
            if us.len() >= 3 {
                st.bump("probe.more_results_chain_3plus", 1);
            }
            for u in us {
                if let crate::dec::DecUnit::Rows { rows, term, cols, .. } = u {
                    if matches!(term, crate::dec::DecTerm::Err(_)) && !rows.is_empty() {
                        st.bump("probe.err_after_rows", 1);
                    }
                    if cols.len() > 6 {
                        st.bump("probe.null_bitmap_2plus_bytes", 1);
                    }
                }
            }
        }
    }
    for c in &plan.cmds {
        if c.seq >= 250 {
            st.bump("probe.request_seq_ge_250", 1);
        }
    }
    if w.cbytes.len() >= 0xFF_FFFF + 4 {
        st.bump("probe.inbound_16m_fragment", 1);
    }
    if w.tls.is_some() {
        st.bump("probe.tls_runs", 1);
    }
}

/// CPU time consumed so far by the thread with this pthread id
fn thread_cpu_s(pt: u64) -> Option<f64> {
    if pt == 0 {
        return None;
    }
    unsafe {
        let mut cid: libc::clockid_t = 0;
        if libc::pthread_getcpuclockid(pt as libc::pthread_t, &mut cid) != 0 {
            return None;
        }
        let mut ts: libc::timespec = std::mem::zeroed();
        if libc::clock_gettime(cid, &mut ts) != 0 {
            return None;
        }
        Some(ts.tv_sec as f64 + ts.tv_nsec as f64 * 1e-9)
    }
}

pub struct BatchResult {
    pub stats: Stats,
    pub wall_s: f64,
    pub truncated: bool,
    pub jobs_done: u64,
    pub jobs_total: u64,
    pub workers: usize,
}

pub fn run_batch(check: &dyn Check, tier: Tier, seed: u64, known: &Known) -> BatchResult {
    let jobs_total = std::env::var("VERIF_RUNS")
        .ok()
        .and_then(|s| s.parse().ok())
        .unwrap_or_else(|| check.jobs(tier));
    let workers: usize = std::env::var("VERIF_WORKERS")
        .ok()
        .and_then(|s| s.parse().ok())
        .unwrap_or_else(|| std::thread::available_parallelism().map(|n| n.get()).unwrap_or(4))
        .max(1);
    let budget = std::env::var("VERIF_BUDGET_S")
        .ok()
        .and_then(|s| s.parse::<u64>().ok())
        .unwrap_or_else(|| check.budget_s(tier) * 4);
    let next = AtomicU64::new(0);
    let done = AtomicU64::new(0);
    let stop = AtomicBool::new(false);
    let merged = Mutex::new(Stats::default());
    let start = Instant::now();
    let idhash = rng::fnv(check.id().as_bytes());
    let tier_n = if tier == Tier::Quick { 1 } else { 2 };
    let journal: Option<std::fs::File> = std::env::var("SIM_JOURNAL")
        .ok()
        .and_then(|p| std::fs::OpenOptions::new().create(true).write(true).truncate(true).open(p).ok());
    let slot = AtomicU64::new(0);
    // watchdog: a single job that makes no progress for WEDGE_S seconds means the code under
    // test spins without I/O (the simulator bounds I/O itself). The process then aborts; the
    // supervising parent finds the job through the journal and reports it with a replay file.
    let heartbeats: Vec<AtomicU64> = (0..workers).map(|_| AtomicU64::new(0)).collect();
    // pthread ids of the workers (for their CPU clocks)
    let tids: Vec<AtomicU64> = (0..workers).map(|_| AtomicU64::new(0)).collect();
    let all_done = AtomicBool::new(false);
    std::thread::scope(|s| {
        s.spawn(|| {
            // "no progress" is measured in CPU time of the worker thread, not wall time: a
            // worker that is merely starved or blocked (overloaded machine, journal write held
            // up by the kernel's dirty-page throttling) is not wedged; one that burns CPU
            // without finishing an evaluation is
            let mut last: Vec<(u64, f64)> = heartbeats.iter().map(|h| (h.load(Ordering::Relaxed), 0.0)).collect();
            while !all_done.load(Ordering::Relaxed) {
                std::thread::sleep(std::time::Duration::from_millis(500));
                for (i, h) in heartbeats.iter().enumerate() {
                    let v = h.load(Ordering::Relaxed);
                    if v == 0 || v == u64::MAX {
                        continue;
                    }
                    let cpu = match thread_cpu_s(tids[i].load(Ordering::Relaxed)) {
                        Some(c) => c,
                        None => continue,
                    };
                    if v != last[i].0 {
                        last[i] = (v, cpu);
                    } else if cpu - last[i].1 >= WEDGE_S as f64 {
                        eprintln!(
                            "simcheck: job {} has burnt {} s of CPU without finishing an evaluation: wedged",
                            (v & 0xFFFF_FFFF).wrapping_sub(1),
                            WEDGE_S
                        );
                        std::process::abort();
                    }
                }
            }
        });
        for _ in 0..workers {
            s.spawn(|| {
                let my_slot = slot.fetch_add(1, Ordering::Relaxed);
                tids[my_slot as usize].store(unsafe { libc::pthread_self() } as u64, Ordering::Relaxed);
                let mut ctx = JobCtx {
                    check,
                    known,
                    stats: Stats::default(),
                    job: 0,
                    sub: 0,
                    want_sample: false,
                    det_check: false,
                    stop_on_fail: false,
                    planlog: None,
                    hb: Some(&heartbeats[my_slot as usize]),
                };
                loop {
                    if stop.load(Ordering::Relaxed) {
                        break;
                    }
                    let base = next.fetch_add(16, Ordering::Relaxed);
                    if base >= jobs_total {
                        break;
                    }
                    for job in base..(base + 16).min(jobs_total) {
                        if let Some(j) = &journal {
                            // which job this worker is in, for post-mortem after a process abort
                            use std::os::unix::fs::FileExt;
                            let _ = j.write_at(&(job + 1).to_le_bytes(), my_slot * 8);
                        }
                        heartbeats[my_slot as usize].store(job + 1, Ordering::Relaxed);
                        let mut rng = Rng::new(rng::mix(&[seed, idhash, tier_n, job]));
                        ctx.job = job;
                        ctx.sub = 0;
                        ctx.want_sample = job < 3;
                        ctx.det_check = job % 50 == 7;
                        ctx.stats.samples.truncate(ctx.stats.samples.len().min(3));
                        let before = ctx.stats.samples.len();
                        check.run_job(&mut rng, tier, job, &mut ctx);
                        let _ = before;
                        done.fetch_add(1, Ordering::Relaxed);
                    }
                    if start.elapsed().as_secs() > budget {
                        stop.store(true, Ordering::Relaxed);
                    }
                    if ctx.stats.failures.len() >= 4 {
                        // enough material; keep going only a little to stay deterministic? no: stop.
                        stop.store(true, Ordering::Relaxed);
                    }
                }
                heartbeats[my_slot as usize].store(u64::MAX, Ordering::Relaxed);
                merged.lock().unwrap().merge(ctx.stats);
                if heartbeats.iter().all(|h| h.load(Ordering::Relaxed) == u64::MAX) {
                    all_done.store(true, Ordering::Relaxed);
                }
            });
        }
    });
    let mut stats = merged.into_inner().unwrap();
    stats.samples.sort_by_key(|s| s.0);
    stats.samples.truncate(4);
    stats.failures.sort_by_key(|f| (f.job, f.sub));
    let jobs_done = done.load(Ordering::Relaxed);
    BatchResult {
        stats,
        wall_s: start.elapsed().as_secs_f64(),
        truncated: jobs_done < jobs_total,
        jobs_done,
        jobs_total,
        workers,
    }
}

// ------------------------------------------------------------------------------------------
// minimisation

pub fn fails_with(check: &dyn Check, known: &Known, plan: &Plan, sig: &Signature) -> bool {
    let out = sim::simulate(plan);
    let (mine, _) = judge_for(check, plan, &out);
    mine.iter()
        .any(|v| v.rule == sig.rule && v.site == sig.site && known.matches(check.id(), v).is_none())
}

fn shrink_blob(b: &Blob) -> Vec<Blob> {
    let n = b.len();
    let mut out = Vec::new();
    if n == 0 {
        return out;
    }
    match b {
        Blob::Lit(v) => {
            out.push(Blob::Lit(Vec::new()));
            if n > 1 {
                out.push(Blob::Lit(v[..n / 2].to_vec()));
                out.push(Blob::Lit(v[..n - 1].to_vec()));
            }
            if v.iter().any(|x| *x != b'a') {
                out.push(Blob::Lit(vec![b'a'; n]));
            }
        }
        Blob::Gen { len, salt, ascii } => {
            out.push(Blob::Lit(Vec::new()));
            out.push(Blob::Gen {
                len: len / 2,
                salt: *salt,
                ascii: *ascii,
            });
            out.push(Blob::Gen {
                len: len - 1,
                salt: *salt,
                ascii: *ascii,
            });
        }
    }
    out
}

/// Collector of minimisation candidates that materialises (clones + edits) only a window of
/// them: plans can be large (100 000 rows, thousands of commands), and one clone per possible
/// edit would need memory quadratic in the plan size.
struct Cands {
    skip: usize,
    cap: usize,
    seen: usize,
    out: Vec<Plan>,
}

impl Cands {
    fn add(&mut self, plan: &Plan, edit: impl FnOnce(&mut Plan)) {
        if self.seen >= self.skip && self.out.len() < self.cap {
            let mut p = plan.clone();
            edit(&mut p);
            self.out.push(p);
        }
        self.seen += 1;
    }
}

/// candidates number `skip .. skip + cap` (in a fixed order: big simplifications first)
fn candidates(plan: &Plan, skip: usize, cap: usize) -> Vec<Plan> {
    let mut c = Cands {
        skip,
        cap,
        seen: 0,
        out: Vec::new(),
    };
    // schedules first: they make everything else cheaper to read
    if plan.reads != ReadSched::all() {
        c.add(plan, |p: &mut Plan| {
        p.reads = ReadSched::all();
        });
        if !plan.reads.cuts.is_empty() {
            c.add(plan, |p: &mut Plan| {
            p.reads.cuts.clear();
            });
            if plan.reads.cuts.len() > 1 {
                for i in 0..plan.reads.cuts.len().min(24) {
                    c.add(plan, |p: &mut Plan| {
                    p.reads.cuts.remove(i);
                    });
                }
            }
        }
        if !plan.reads.explicit.is_empty() {
            c.add(plan, |p: &mut Plan| {
            p.reads.explicit.clear();
            });
        }
        if plan.reads.tail != Tail::All {
            c.add(plan, |p: &mut Plan| {
            p.reads.tail = Tail::All;
            });
            c.add(plan, |p: &mut Plan| {
            p.reads.tail = Tail::Fixed(1);
            });
        }
    }
    if plan.arrival != Arrival::upfront() {
        c.add(plan, |p: &mut Plan| {
        p.arrival = Arrival::upfront();
        });
        c.add(plan, |p: &mut Plan| {
        p.arrival = Arrival::lockstep();
        });
    }
    if plan.writes != WriteSched::all() {
        c.add(plan, |p: &mut Plan| {
        p.writes = WriteSched::all();
        });
        if !plan.writes.eintr_at.is_empty() {
            c.add(plan, |p: &mut Plan| {
            p.writes.eintr_at.clear();
            });
        }
    }
    for i in 0..plan.faults.len() {
        c.add(plan, |p: &mut Plan| {
        p.faults.remove(i);
        });
    }
    for i in 0..plan.mutations.len() {
        c.add(plan, |p: &mut Plan| {
        p.mutations.remove(i);
        });
    }
    // commands: tail first, then each
    let n = plan.cmds.len();
    if n > 1 {
        c.add(plan, |p: &mut Plan| {
        p.cmds.truncate(n / 2);
        });
        c.add(plan, |p: &mut Plan| {
        p.cmds.drain(0..n / 2);
        });
    }
    for i in (0..n).rev() {
        c.add(plan, |p: &mut Plan| {
        p.cmds.remove(i);
        });
    }
    for (i, cmd) in plan.cmds.iter().enumerate() {
        if cmd.seq != 0 {
            c.add(plan, |p: &mut Plan| {
            p.cmds[i].seq = 0;
            });
        }
        // payload shrinking
        let blob = match &cmd.kind {
            CmdKind::Query(b) | CmdKind::Prepare(b) | CmdKind::InitDb(b) | CmdKind::FieldList(b) | CmdKind::Raw(b) => Some(b),
            CmdKind::Unsupported(_) => None,
            CmdKind::LongData { data, .. } => Some(data),
            _ => None,
        };
        if let Some(b) = blob {
            if !matches!(cmd.kind, CmdKind::Query(_)) || b.len() > 12 {
                for nb in shrink_blob(b) {
                    if matches!(cmd.kind, CmdKind::Query(_) | CmdKind::Prepare(_)) && nb.is_empty() {
                        continue;
                    }
                    c.add(plan, |p: &mut Plan| {
                    match &mut p.cmds[i].kind {
                        CmdKind::Query(x) | CmdKind::Prepare(x) | CmdKind::InitDb(x) | CmdKind::FieldList(x) | CmdKind::Raw(x) => *x = nb,
                        CmdKind::LongData { data, .. } => *data = nb,
                        _ => {}
                    }
                    });
                }
            }
        }
        if let Act::Program(prog) = &cmd.act {
            for ui in 0..prog.units.len() {
                if prog.units.len() > 1 {
                    c.add(plan, |p: &mut Plan| {
                    if let Act::Program(pp) = &mut p.cmds[i].act {
                        pp.units.remove(ui);
                        fix_program(pp);
                    }
                    });
                }
                if let Unit::Rows(ru) = &prog.units[ui] {
                    // many rows: halves first (a 100 000-row plan shrinks in ~17 steps)
                    if ru.rows.len() > 6 {
                        let h = ru.rows.len() / 2;
                        c.add(plan, |p: &mut Plan| {
                            if let Act::Program(pp) = &mut p.cmds[i].act {
                                if let Unit::Rows(r2) = &mut pp.units[ui] {
                                    r2.rows.truncate(h);
                                }
                            }
                        });
                        c.add(plan, |p: &mut Plan| {
                            if let Act::Program(pp) = &mut p.cmds[i].act {
                                if let Unit::Rows(r2) = &mut pp.units[ui] {
                                    r2.rows.drain(0..h);
                                }
                            }
                        });
                    }
                    for ri in (0..ru.rows.len()).rev() {
                        c.add(plan, |p: &mut Plan| {
                        if let Act::Program(pp) = &mut p.cmds[i].act {
                            if let Unit::Rows(r2) = &mut pp.units[ui] {
                                r2.rows.remove(ri);
                            }
                        }
                        });
                    }
                    if ru.cols.len() > 1 {
                        for ci in (0..ru.cols.len()).rev() {
                            c.add(plan, |p: &mut Plan| {
                            if let Act::Program(pp) = &mut p.cmds[i].act {
                                if let Unit::Rows(r2) = &mut pp.units[ui] {
                                    r2.cols.remove(ci);
                                    for row in &mut r2.rows {
                                        if ci < row.len() {
                                            row.remove(ci);
                                        }
                                    }
                                }
                            }
                            });
                        }
                    }
                    // shrink names
                    for (ci, col) in ru.cols.iter().enumerate() {
                        if col.table.len() > 1 || col.name.len() > 1 {
                            c.add(plan, |p: &mut Plan| {
                            if let Act::Program(pp) = &mut p.cmds[i].act {
                                if let Unit::Rows(r2) = &mut pp.units[ui] {
                                    r2.cols[ci].table = Blob::lit(b"t");
                                    r2.cols[ci].name = Blob::lit(b"c");
                                }
                            }
                            });
                        }
                    }
                }
            }
        }
        if let CmdKind::Execute { block, .. } = &cmd.kind {
            let _ = block;
        }
    }
    if let HsBody::V41 { user, tail, .. } = &plan.handshake.body {
        if user != b"u" || tail != &vec![0u8] {
            c.add(plan, |p: &mut Plan| {
            if let HsBody::V41 { user, tail, caps, .. } = &mut p.handshake.body {
                *user = b"u".to_vec();
                *tail = vec![0];
                *caps = (*caps & CLIENT_SSL) | 0x000F_A685 & !CLIENT_SSL | (*caps & CLIENT_SSL);
            }
            });
        }
    }
    c.out
}

fn fix_program(p: &mut Program) {
    // keep the program well-formed after removing a unit
    let n = p.units.len();
    for (i, u) in p.units.iter_mut().enumerate() {
        if let Unit::Rows(r) = u {
            if i + 1 < n && r.close != Close::FinishOne {
                r.close = Close::FinishOne;
            }
        }
    }
    if let Some(Unit::Rows(r)) = p.units.last() {
        if r.close == Close::FinishOne && p.end == End::Implicit {
            p.end = End::NoMoreResults;
        }
    }
    if let Some((at, _)) = &mut p.ret_err {
        if *at as usize > n {
            *at = n as u32;
        }
    }
}

pub fn minimise(check: &dyn Check, known: &Known, plan: &Plan, sig: &Signature) -> (Plan, u32) {
    let mut best = plan.clone();
    let mut tried = 0u32;
    let start = Instant::now();
    const WINDOW: usize = 24;
    'outer: loop {
        let mut skip = 0;
        loop {
            let batch = candidates(&best, skip, WINDOW);
            if batch.is_empty() {
                // every candidate of the current plan was tried: done
                return (best, tried);
            }
            let n = batch.len();
            for cand in batch {
                if tried >= 2000 || start.elapsed().as_secs() >= 30 {
                    return (best, tried);
                }
                if cand == best {
                    // a "simplification" that is already in place is no progress
                    continue;
                }
                tried += 1;
                if fails_with(check, known, &cand, sig) {
                    best = cand;
                    continue 'outer;
                }
            }
            skip += n;
        }
    }
}

#[derive(Serialize, Deserialize)]
pub struct ReplayFile {
    pub format: u32,
    pub property: String,
    pub signature: Signature,
    pub detail: String,
    pub found_by: serde_json::Value,
    pub minimised_from_cmds: usize,
    pub plan: Plan,
}
