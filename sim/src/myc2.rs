//! Second opinion: the server's packets are also decoded with mysql_common's own
//! deserialisers (a widely used conformant client implementation) and compared field by field
//! with what the harness's independent decoder extracted. Either decoder rejecting, or the two
//! disagreeing, is reported (rule "decode-myc").

use crate::dec::{BinVal, DecCol, DecErr, DecOk, DecResp, DecRow, DecTerm, DecUnit, Decoded, Greeting};
use mysql_common as myc;
use myc::constants::CapabilityFlags;
use myc::io::ParseBuf;
use myc::packets::{Column, CommonOkPacket, ErrPacket, HandshakePacket, OkPacketDeserializer, OldEofPacket, StmtPacket};
use myc::proto::{Binary, MyDeserialize, Text};
use myc::row::RowDeserializer;
use myc::value::{ServerSide, Value};
use std::sync::Arc;

type R = Result<(), String>;

fn caps() -> CapabilityFlags {
    CapabilityFlags::CLIENT_PROTOCOL_41
}

pub fn check_greeting(g: &Greeting) -> R {
    let mut pb = ParseBuf(&g.raw);
    let h = HandshakePacket::deserialize((), &mut pb).map_err(|e| format!("HandshakePacket rejects the greeting: {}", e))?;
    if h.protocol_version() != g.protocol {
        return Err(format!("protocol version {} vs {}", h.protocol_version(), g.protocol));
    }
    if h.capabilities().bits() != g.caps {
        return Err(format!("capabilities {:#x} vs {:#x}", h.capabilities().bits(), g.caps));
    }
    if h.server_version_ref() != &g.version[..] {
        return Err("server version differs".into());
    }
    if h.scramble_1_ref() != &g.scramble1[..] {
        return Err("scramble part 1 differs".into());
    }
    Ok(())
}

fn ck_ok(raw: &[u8], ok: &DecOk) -> R {
    let mut pb = ParseBuf(raw);
    let p = OkPacketDeserializer::<CommonOkPacket>::deserialize(caps(), &mut pb)
        .map_err(|e| format!("OkPacket rejects: {}", e))?
        .into_inner();
    if p.affected_rows() != ok.affected {
        return Err(format!("OK affected_rows {} vs {}", p.affected_rows(), ok.affected));
    }
    if p.last_insert_id().unwrap_or(0) != ok.last_id {
        return Err(format!("OK last_insert_id {:?} vs {}", p.last_insert_id(), ok.last_id));
    }
    if p.status_flags().bits() != ok.status {
        return Err(format!("OK status {:#x} vs {:#x}", p.status_flags().bits(), ok.status));
    }
    if p.warnings() != ok.warnings {
        return Err("OK warnings differ".into());
    }
    Ok(())
}

fn ck_err(raw: &[u8], er: &DecErr) -> R {
    let mut pb = ParseBuf(raw);
    let p = ErrPacket::deserialize(caps(), &mut pb).map_err(|e| format!("ErrPacket rejects: {}", e))?;
    match p {
        ErrPacket::Error(se) => {
            if se.error_code() != er.code {
                return Err(format!("ERR code {} vs {}", se.error_code(), er.code));
            }
            if se.sql_state_ref() != er.state {
                return Err("ERR sqlstate differs".into());
            }
            if se.message_ref() != &er.msg[..] {
                return Err("ERR message differs".into());
            }
            Ok(())
        }
        ErrPacket::Progress(_) => Err("ErrPacket decodes a progress report".into()),
    }
}

fn ck_eof(raw: &[u8], status: u16) -> R {
    let mut pb = ParseBuf(raw);
    let p = OkPacketDeserializer::<OldEofPacket>::deserialize(caps(), &mut pb)
        .map_err(|e| format!("EOF packet rejected: {}", e))?
        .into_inner();
    if p.status_flags().bits() != status {
        return Err(format!("EOF status {:#x} vs {:#x}", p.status_flags().bits(), status));
    }
    Ok(())
}

fn ck_col(raw: &[u8], c: &DecCol) -> Result<Column, String> {
    let mut pb = ParseBuf(raw);
    let p = Column::deserialize((), &mut pb).map_err(|e| format!("Column rejects: {}", e))?;
    if p.table_ref() != &c.table[..] {
        return Err("column table differs".into());
    }
    if p.name_ref() != &c.name[..] {
        return Err("column name differs".into());
    }
    if p.column_type() as u8 != c.coltype {
        return Err(format!("column type {:#x} vs {:#x}", p.column_type() as u8, c.coltype));
    }
    if p.flags().bits() != c.flags {
        return Err(format!("column flags {:#x} vs {:#x}", p.flags().bits(), c.flags));
    }
    Ok(p)
}

fn val_eq_bin(v: &Value, b: &BinVal) -> bool {
    match (v, b) {
        (Value::NULL, BinVal::Null) => true,
        (Value::Int(a), BinVal::Int(x)) => a == x,
        (Value::UInt(a), BinVal::UInt(x)) => a == x,
        // mysql_common reports non-negative values of unsigned columns as UInt and small
        // unsigned ones possibly as Int: compare numerically
        (Value::Int(a), BinVal::UInt(x)) => *a >= 0 && *a as u64 == *x,
        (Value::UInt(a), BinVal::Int(x)) => *x >= 0 && *a == *x as u64,
        (Value::Float(a), BinVal::F32(x)) => a.to_bits() == *x,
        (Value::Double(a), BinVal::F64(x)) => a.to_bits() == *x,
        (Value::Bytes(a), BinVal::Bytes(x)) => a == x,
        (Value::Date(y, mo, d, h, mi, s, us), BinVal::Date(body)) => {
            let n = |i: usize| body.get(i).copied().unwrap_or(0);
            let (by, bmo, bd) = if body.len() >= 4 {
                (u16::from_le_bytes([body[0], body[1]]), body[2], body[3])
            } else {
                (0, 0, 0)
            };
            let (bh, bmi, bs) = if body.len() >= 7 { (n(4), n(5), n(6)) } else { (0, 0, 0) };
            let bus = if body.len() == 11 {
                u32::from_le_bytes([body[7], body[8], body[9], body[10]])
            } else {
                0
            };
            (*y, *mo, *d, *h, *mi, *s, *us) == (by, bmo, bd, bh, bmi, bs, bus)
        }
        (Value::Time(neg, d, h, m, s, us), BinVal::Time(body)) => {
            if body.is_empty() {
                return (*neg, *d, *h, *m, *s, *us) == (false, 0, 0, 0, 0, 0);
            }
            let bd = u32::from_le_bytes([body[1], body[2], body[3], body[4]]);
            let bus = if body.len() == 12 {
                u32::from_le_bytes([body[8], body[9], body[10], body[11]])
            } else {
                0
            };
            (*neg, *d, *h, *m, *s, *us) == (body[0] != 0, bd, body[5], body[6], body[7], bus)
        }
        _ => false,
    }
}

/// Compare one decoded response with mysql_common's reading of the same packets.
pub fn check_reply(d: &Decoded) -> R {
    let raw = &d.raw;
    let mut i = 0usize;
    let mut next = |i: &mut usize| -> Option<&Vec<u8>> {
        let r = raw.get(*i);
        *i += 1;
        match r {
            Some(v) if !v.is_empty() => Some(v),
            _ => None, // message too large to have been kept: skipped
        }
    };
    let mut units_check = |units: &[DecUnit], i: &mut usize| -> R {
        for u in units {
            match u {
                DecUnit::Ok(ok) => {
                    if let Some(r) = next(i) {
                        ck_ok(r, ok)?;
                    }
                }
                DecUnit::Err(er) => {
                    if let Some(r) = next(i) {
                        ck_err(r, er)?;
                    }
                }
                DecUnit::Rows {
                    cols,
                    mid_status,
                    rows,
                    term,
                } => {
                    let _count = next(i);
                    let mut mcols = Vec::with_capacity(cols.len());
                    let mut all = true;
                    for c in cols {
                        match next(i) {
                            Some(r) => mcols.push(ck_col(r, c)?),
                            None => all = false,
                        }
                    }
                    if let Some(r) = next(i) {
                        ck_eof(r, *mid_status)?;
                    }
                    let mcols: Arc<[Column]> = mcols.into();
                    for row in rows {
                        let r = next(i);
                        let (Some(r), true) = (r, all) else { continue };
                        match row {
                            DecRow::Text(cells) => {
                                let mut pb = ParseBuf(r);
                                let mr = RowDeserializer::<ServerSide, Text>::deserialize(mcols.clone(), &mut pb)
                                    .map_err(|e| format!("text row rejected: {}", e))?
                                    .into_inner()
                                    .unwrap_raw();
                                if !pb.is_empty() || mr.len() != cells.len() {
                                    return Err("text row length differs".into());
                                }
                                for (a, b) in mr.iter().zip(cells) {
                                    let same = match (a, b) {
                                        (Some(Value::NULL), None) => true,
                                        (Some(Value::Bytes(x)), Some(y)) => x == y,
                                        _ => false,
                                    };
                                    if !same {
                                        return Err("text cell differs".into());
                                    }
                                }
                            }
                            DecRow::Bin { cells, .. } => {
                                let mut pb = ParseBuf(r);
                                let mr = RowDeserializer::<ServerSide, Binary>::deserialize(mcols.clone(), &mut pb)
                                    .map_err(|e| format!("binary row rejected: {}", e))?
                                    .into_inner()
                                    .unwrap_raw();
                                if mr.len() != cells.len() {
                                    return Err("binary row length differs".into());
                                }
                                for (ci, (a, b)) in mr.iter().zip(cells).enumerate() {
                                    let a = a.as_ref().ok_or("binary cell missing")?;
                                    if !val_eq_bin(a, b) {
                                        return Err(format!(
                                            "binary cell {} differs: mysql_common {:?} vs {:?}",
                                            ci, a, b
                                        ));
                                    }
                                }
                            }
                        }
                    }
                    match term {
                        DecTerm::Eof { status, .. } => {
                            if let Some(r) = next(i) {
                                ck_eof(r, *status)?;
                            }
                        }
                        DecTerm::Err(er) => {
                            if let Some(r) = next(i) {
                                ck_err(r, er)?;
                            }
                        }
                    }
                }
            }
        }
        Ok(())
    };
    match &d.resp {
        DecResp::Units(us) => units_check(us, &mut i),
        DecResp::PrepareOk {
            id,
            ncols,
            nparams,
            params,
            cols,
            ..
        } => {
            if let Some(r) = raw.first().filter(|r| !r.is_empty()) {
                let mut pb = ParseBuf(r);
                let p = StmtPacket::deserialize((), &mut pb).map_err(|e| format!("StmtPacket rejects: {}", e))?;
                if p.statement_id() != *id || p.num_columns() != *ncols || p.num_params() != *nparams {
                    return Err("StmtPacket fields differ".into());
                }
            }
            let mut i = 1usize;
            for block in [params, cols] {
                if !block.is_empty() {
                    for c in block.iter() {
                        if let Some(r) = raw.get(i).filter(|r| !r.is_empty()) {
                            ck_col(r, c)?;
                        }
                        i += 1;
                    }
                    if let Some(r) = raw.get(i).filter(|r| !r.is_empty()) {
                        ck_eof(r, 0).or_else(|e| if e.contains("status") { Ok(()) } else { Err(e) })?;
                    }
                    i += 1;
                }
            }
            Ok(())
        }
        DecResp::FieldList(_) => Ok(()),
    }
}
