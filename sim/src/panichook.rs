//! Panic capture: a process-wide hook that records location and message in a thread-local slot
//! and prints nothing.

use std::cell::RefCell;

thread_local! {
    static LAST: RefCell<Option<(String, String)>> = const { RefCell::new(None) };
}

pub fn install() {
    std::panic::set_hook(Box::new(|info| {
        let loc = info
            .location()
            .map(|l| format!("{}:{}", l.file(), l.line()))
            .unwrap_or_else(|| "?".into());
        let msg = if let Some(s) = info.payload().downcast_ref::<&str>() {
            s.to_string()
        } else if let Some(s) = info.payload().downcast_ref::<String>() {
            s.clone()
        } else {
            "<non-string panic>".into()
        };
        LAST.with(|l| *l.borrow_mut() = Some((loc, msg)));
    }));
}

pub fn clear() {
    LAST.with(|l| *l.borrow_mut() = None);
}

/// "file:line: message"
pub fn take_last() -> Option<String> {
    LAST.with(|l| l.borrow_mut().take()).map(|(a, b)| format!("{}: {}", a, b))
}

pub fn take_last_pair() -> Option<(String, String)> {
    LAST.with(|l| l.borrow_mut().take())
}

/// Normalise a panic site: strip everything up to the crate-relative path, erase numbers in the
/// message so that value-dependent messages map to one site.
pub fn normalise(loc: &str, msg: &str) -> String {
    let file = loc.rsplit_once(':').map(|x| x.0).unwrap_or(loc);
    let file = match file.find("/src/") {
        Some(i) => {
            // keep "<crate>/src/..." for dependencies, "src/..." for /repo
            let pre = &file[..i];
            let krate = pre.rsplit('/').next().unwrap_or("");
            if krate == "repo" || krate.is_empty() {
                file[i + 1..].to_string()
            } else {
                format!("{}{}", krate, &file[i..])
            }
        }
        None => file.to_string(),
    };
    let mut m = String::new();
    let mut in_num = false;
    // hexadecimal literals are numbers too
    let mut cleaned = String::new();
    let mut it = msg.chars().peekable();
    while let Some(ch) = it.next() {
        if ch == '0' && it.peek() == Some(&'x') {
            it.next();
            while matches!(it.peek(), Some(c) if c.is_ascii_hexdigit()) {
                it.next();
            }
            cleaned.push('0');
        } else {
            cleaned.push(ch);
        }
    }
    for ch in cleaned.chars().take(120) {
        if ch.is_ascii_digit() {
            if !in_num {
                m.push('#');
            }
            in_num = true;
        } else {
            in_num = false;
            m.push(ch);
        }
    }
    format!("{} | {}", file, m)
}
