//! Executable reference model ("RefServer"): what the server owes the shim and the client for a
//! given Plan, at the level of commands and shim programs (never bytes of the implementation).

use crate::enc;
use crate::plan::*;
use std::collections::BTreeMap;

#[derive(Clone, Debug, PartialEq)]
pub enum SeenVal {
    Null,
    Bytes(Vec<u8>),
    Int(i64),
    UInt(u64),
    Double(u64),
    Date(Vec<u8>),
    Time(Vec<u8>),
    Datetime(Vec<u8>),
}

/// Result of converting a delivered parameter to "the corresponding Rust type"
#[derive(Clone, Debug, PartialEq)]
pub enum Conv {
    /// no conversion attempted / no Rust value exists: not compared
    Any,
    U64(u64),
    I64(i64),
    F32(u32),
    F64(u64),
    /// &[u8] conversion gave these bytes; the bool says whether the &str conversion (attempted
    /// only when the bytes are UTF-8) gave the same bytes
    Bytes(Vec<u8>, bool),
    Date(i32, u32, u32),
    DateTime(i32, u32, u32, u32, u32, u32, u32),
    /// seconds, microseconds
    Dur(u64, u32),
    Panicked(String),
}

#[derive(Clone, Debug, PartialEq)]
pub struct SeenParam {
    pub coltype: u8,
    pub val: SeenVal,
    pub conv: Conv,
}

#[derive(Clone, Debug, PartialEq)]
pub enum Cb {
    Auth { user: Option<Vec<u8>>, certs: Option<Vec<Vec<u8>>> },
    Query(Vec<u8>),
    Prepare(Vec<u8>),
    Execute { stmt: u32, params: Vec<SeenParam> },
    Close(u32),
    Init(Vec<u8>),
}

impl Cb {
    pub fn kind(&self) -> &'static str {
        match self {
            Cb::Auth { .. } => "auth",
            Cb::Query(_) => "query",
            Cb::Prepare(_) => "prepare",
            Cb::Execute { .. } => "execute",
            Cb::Close(_) => "close",
            Cb::Init(_) => "init",
        }
    }
    pub fn short(&self) -> String {
        fn d(b: &[u8]) -> String {
            if b.len() <= 40 {
                format!("{:?}", String::from_utf8_lossy(b))
            } else {
                format!("<{} bytes fnv {:x}>", b.len(), crate::rng::fnv(b))
            }
        }
        match self {
            Cb::Auth { user, certs } => format!(
                "auth(user={:?}, certs={:?})",
                user.as_ref().map(|u| d(u)),
                certs.as_ref().map(|c| c.len())
            ),
            Cb::Query(q) => format!("query({})", d(q)),
            Cb::Prepare(q) => format!("prepare({})", d(q)),
            Cb::Execute { stmt, params } => {
                let mut s = format!("execute({}, [", stmt);
                for (i, p) in params.iter().enumerate() {
                    if i > 0 {
                        s.push_str(", ");
                    }
                    if i >= 8 {
                        s.push_str("...");
                        break;
                    }
                    let v = match &p.val {
                        SeenVal::Bytes(b) => format!("Bytes({})", d(b)),
                        other => format!("{:?}", other),
                    };
                    s.push_str(&format!("{:#x}:{} conv={:?}", p.coltype, v, conv_short(&p.conv)));
                }
                s.push_str("])");
                s
            }
            Cb::Close(id) => format!("close({})", id),
            Cb::Init(n) => format!("init({})", d(n)),
        }
    }
}

fn conv_short(c: &Conv) -> String {
    match c {
        Conv::Bytes(b, s) => format!("Bytes(len {}, str_ok {})", b.len(), s),
        other => format!("{:?}", other),
    }
}

#[derive(Clone, Debug, PartialEq)]
pub enum ExpTerm {
    Eof { more: bool },
    Err { kind: u16, msg: Vec<u8> },
}

#[derive(Clone, Debug, PartialEq)]
pub enum ExpUnit {
    Rows {
        cols: Vec<ColSpec>,
        rows: Vec<Vec<Cell>>,
        term: ExpTerm,
    },
    Ok {
        affected: u64,
        last_id: u64,
        more: bool,
    },
    Err {
        kind: u16,
        msg: Vec<u8>,
    },
}

#[derive(Clone, Debug, PartialEq)]
pub enum Reply {
    /// the command expects no reply: zero bytes
    None,
    Units(Vec<ExpUnit>),
    PrepareOk {
        id: u32,
        params: Vec<ColSpec>,
        cols: Vec<ColSpec>,
    },
    /// `SELECT @@max_allowed_packet`: one-column one-row resultset, content unconstrained
    BuiltinResultset,
    FieldList,
    /// exactly one OK or one ERR (the library's default on_init)
    OkOrErr,
    /// the connection ends while serving this command, or the input is hostile: unconstrained
    Unconstrained,
}

#[derive(Clone, Copy, Debug, PartialEq, Eq)]
pub enum Grammar {
    Text,
    Binary,
    Prepare,
    FieldList,
    NoReply,
}

#[derive(Clone, Debug, PartialEq)]
pub enum EndOfConn {
    /// run_on must return Ok
    Ok,
    /// run_on must return an io-class error (not a shim token)
    IoErr,
    /// run_on must return exactly this shim token
    Token(u32),
    /// not constrained by the model (hostile input)
    Any,
}

#[derive(Clone, Debug, PartialEq)]
pub enum Routing {
    /// exact callback expected (or none)
    Exact(Option<Cb>),
    /// either on_query(text) or an on_init call is acceptable (spelling the property does not fix)
    Flex(Vec<u8>),
    /// the command must not reach the shim carrying this text (non-UTF-8)
    NeverWith(Vec<u8>),
}

#[derive(Clone, Debug)]
pub struct CmdModel {
    pub routing: Routing,
    pub reply: Reply,
    pub grammar: Grammar,
    /// types in force for this execution (client-side knowledge used by the encoder)
    pub eff_types: Option<Vec<(u8, u8)>>,
    /// the connection ends at this command
    pub ends: Option<EndOfConn>,
    /// this command is processed at all (false after the connection ended)
    pub live: bool,
    /// contradiction program: some writer call must fail
    pub expect_api_err: bool,
    /// index into the shim's action list (k-th callback that consumes an Act)
    pub act_index: Option<usize>,
    /// C15 probe program
    pub probe: bool,
    /// contradiction program whose shim reports the failed call with finish_error: when that
    /// call succeeds the client is owed these units
    pub recover: Option<Vec<ExpUnit>>,
}

#[derive(Clone, Debug)]
pub struct Model {
    pub auth: Option<Cb>,
    pub cmds: Vec<CmdModel>,
    pub end: EndOfConn,
    /// actions in the order the shim will consume them
    pub acts: Vec<Act>,
    pub hostile: bool,
}

#[derive(Clone, Debug, Default)]
struct St {
    nparams: usize,
    types: Option<Vec<(u8, u8)>>,
    long: BTreeMap<u16, Vec<u8>>,
}

pub fn is_utf8(b: &[u8]) -> bool {
    std::str::from_utf8(b).is_ok()
}

#[derive(Debug, PartialEq)]
pub enum QRoute {
    BuiltinMaxPacket,
    BuiltinVar,
    Use(Vec<u8>),
    Flex,
    Query,
}

/// Routing of COM_QUERY text according to the property statement.
pub fn route_query(q: &[u8]) -> QRoute {
    if q.starts_with(b"SELECT @@") || q.starts_with(b"select @@") {
        if &q[9..] == b"max_allowed_packet" {
            return QRoute::BuiltinMaxPacket;
        }
        return QRoute::BuiltinVar;
    }
    let lower: Vec<u8> = q.iter().take(16).map(|b| b.to_ascii_lowercase()).collect();
    if lower.starts_with(b"select @@") {
        // mixed-case spelling of the probe: not fixed by the property
        return QRoute::Flex;
    }
    if q.starts_with(b"USE ") || q.starts_with(b"use ") {
        // spellings clients emit: whitespace, name bare or back-quoted, optional ';', optional
        // trailing whitespace
        if let Ok(s) = std::str::from_utf8(&q[4..]) {
            let s = s.trim_matches(|c: char| c == ' ' || c == '\t' || c == '\n' || c == '\r');
            let s = s.strip_suffix(';').unwrap_or(s);
            let s = s.trim_matches(|c: char| c == ' ' || c == '\t' || c == '\n' || c == '\r');
            let s = if s.len() >= 2 && s.starts_with('`') && s.ends_with('`') {
                &s[1..s.len() - 1]
            } else {
                s
            };
            return QRoute::Use(s.as_bytes().to_vec());
        }
        return QRoute::Query; // non-UTF-8: handled by caller
    }
    if lower.starts_with(b"use")
        && lower.len() > 3
        && (lower[3] == b' ' || lower[3] == b'\t' || lower[3] == b'\n')
    {
        // `Use db`, `use\tdb`: not fixed by the property
        return QRoute::Flex;
    }
    QRoute::Query
}

fn sign_extend(x: i64, w: usize) -> i64 {
    let sh = 64 - 8 * w as u32;
    if sh == 0 {
        x
    } else {
        (x << sh) >> sh
    }
}

fn mask(x: i64, w: usize) -> u64 {
    if w == 8 {
        x as u64
    } else {
        (x as u64) & ((1u64 << (8 * w)) - 1)
    }
}

pub fn valid_date(y: i32, m: u32, d: u32) -> bool {
    if !(1..=12).contains(&m) || d == 0 {
        return false;
    }
    let leap = (y % 4 == 0 && y % 100 != 0) || y % 400 == 0;
    let dim = match m {
        1 | 3 | 5 | 7 | 8 | 10 | 12 => 31,
        4 | 6 | 9 | 11 => 30,
        _ => {
            if leap {
                29
            } else {
                28
            }
        }
    };
    d <= dim
}

/// What the shim must see for a parameter sent as `v` under binding (ty, flags)
pub fn expected_param(v: &PVal, ty: u8, flags: u8) -> SeenParam {
    let unsigned = flags & 0x80 != 0;
    let (val, conv) = match v {
        PVal::Null => (SeenVal::Null, Conv::Any),
        PVal::Skip => (SeenVal::Null, Conv::Any), // replaced by long data by the caller
        PVal::Int(x) => {
            let w = enc::is_int_type(ty).unwrap_or(8);
            if unsigned {
                let u = mask(*x, w);
                (SeenVal::UInt(u), Conv::U64(u))
            } else {
                let s = sign_extend(*x, w);
                (SeenVal::Int(s), Conv::I64(s))
            }
        }
        PVal::F32(b) => (
            SeenVal::Double((f32::from_bits(*b) as f64).to_bits()),
            Conv::F32(*b),
        ),
        PVal::F64(b) => (SeenVal::Double(*b), Conv::F64(*b)),
        PVal::Bytes { data, .. } => {
            let d = data.to_vec();
            (SeenVal::Bytes(d.clone()), Conv::Bytes(d, true))
        }
        PVal::Temporal(body) => match ty {
            0x0a => {
                let conv = if body.len() == 4 {
                    let y = u16::from_le_bytes([body[0], body[1]]) as i32;
                    if valid_date(y, body[2] as u32, body[3] as u32) {
                        Conv::Date(y, body[2] as u32, body[3] as u32)
                    } else {
                        Conv::Any
                    }
                } else {
                    Conv::Any
                };
                (SeenVal::Date(body.clone()), conv)
            }
            0x0b => {
                let conv = if body.is_empty() {
                    Conv::Dur(0, 0)
                } else if (body.len() == 8 || body.len() == 12) && body[0] == 0 {
                    let days = u32::from_le_bytes([body[1], body[2], body[3], body[4]]) as u64;
                    let secs =
                        days * 86400 + body[5] as u64 * 3600 + body[6] as u64 * 60 + body[7] as u64;
                    let us = if body.len() == 12 {
                        u32::from_le_bytes([body[8], body[9], body[10], body[11]])
                    } else {
                        0
                    };
                    if us < 1_000_000 && body[5] < 24 && body[6] < 60 && body[7] < 60 {
                        Conv::Dur(secs, us)
                    } else {
                        Conv::Any
                    }
                } else {
                    Conv::Any
                };
                (SeenVal::Time(body.clone()), conv)
            }
            _ => {
                let conv = if body.len() == 4 || body.len() == 7 || body.len() == 11 {
                    let y = u16::from_le_bytes([body[0], body[1]]) as i32;
                    let (h, mi, s) = if body.len() >= 7 {
                        (body[4] as u32, body[5] as u32, body[6] as u32)
                    } else {
                        (0, 0, 0)
                    };
                    let us = if body.len() == 11 {
                        u32::from_le_bytes([body[7], body[8], body[9], body[10]])
                    } else {
                        0
                    };
                    if valid_date(y, body[2] as u32, body[3] as u32)
                        && h < 24
                        && mi < 60
                        && s < 60
                        && us < 1_000_000
                    {
                        Conv::DateTime(y, body[2] as u32, body[3] as u32, h, mi, s, us)
                    } else {
                        Conv::Any
                    }
                } else {
                    Conv::Any
                };
                (SeenVal::Datetime(body.clone()), conv)
            }
        },
    };
    SeenParam {
        coltype: ty,
        val,
        conv,
    }
}

pub fn ended_rows(u: &RowsUnit) -> u64 {
    let n = u.rows.len() as u64;
    if !u.write_row && !u.last_row_ended && n > 0 {
        n - 1
    } else {
        n
    }
}

/// Expected reply for a complete, success-reporting program.
pub fn program_units(p: &Program) -> Vec<ExpUnit> {
    let mut out = Vec::new();
    let n = p.units.len();
    let end_err = matches!(p.end, End::Error { .. });
    for (i, u) in p.units.iter().enumerate() {
        let more = i + 1 < n || end_err;
        match u {
            Unit::Count { affected, last_id } => out.push(ExpUnit::Ok {
                affected: *affected,
                last_id: *last_id,
                more,
            }),
            Unit::BulkRows { n } => out.push(ExpUnit::Ok {
                affected: *n,
                last_id: 0,
                more,
            }),
            Unit::Rows(r) => {
                if r.cols.is_empty() {
                    match &r.close {
                        Close::FinishError { kind, msg } => out.push(ExpUnit::Err {
                            kind: *kind,
                            msg: msg.to_vec(),
                        }),
                        _ => out.push(ExpUnit::Ok {
                            affected: ended_rows(r),
                            last_id: 0,
                            more,
                        }),
                    }
                } else {
                    let term = match &r.close {
                        Close::FinishError { kind, msg } => ExpTerm::Err {
                            kind: *kind,
                            msg: msg.to_vec(),
                        },
                        _ => ExpTerm::Eof { more },
                    };
                    let mut rows = r.rows.clone();
                    if let Some(Contra::OfferedMaybe { row, col, .. }) = &r.contra {
                        if !r.write_row {
                            if let Some(c) = rows.get_mut(*row as usize).and_then(|rw| rw.get_mut(*col as usize)) {
                                *c = Cell::OrAnyTemporal(Box::new(c.clone()));
                            }
                        }
                    }
                    out.push(ExpUnit::Rows {
                        cols: r.cols.clone(),
                        rows,
                        term,
                    });
                }
            }
        }
    }
    if let End::Error { kind, msg } = &p.end {
        out.push(ExpUnit::Err {
            kind: *kind,
            msg: msg.to_vec(),
        });
    }
    out
}

/// the token the shim returns, if the interpreter reaches the `ret_err` point at all (a
/// terminal close of the last unit returns before an at-the-end `ret_err`)
pub fn ret_err_reached(p: &Program) -> Option<u32> {
    let (at, tok) = p.ret_err?;
    let n = p.units.len();
    if (at as usize) < n || (at as usize) > n {
        // before a unit, or after the complete response ("report, then hang up")
        return Some(tok);
    }
    let early_return = match p.units.last() {
        Some(Unit::Rows(r)) => r.close != Close::FinishOne,
        Some(Unit::Count { .. }) => p.end == End::Implicit,
        Some(Unit::BulkRows { .. }) => true,
        None => false,
    };
    if early_return {
        None
    } else {
        Some(tok)
    }
}

/// `RowsUnit.recover` with this error kind means: do not report anything, ignore the refused
/// row (write_row mode) and carry on with the following rows
pub const CARRY_ON: u16 = 0xFFFF;

/// expected reply of a contradiction program that recovers with finish_error: everything before
/// the contradicting unit, the rows before the contradicting row, then the error
pub fn recover_units(p: &Program) -> Option<Vec<ExpUnit>> {
    let mut out = Vec::new();
    for u in &p.units {
        match u {
            Unit::Count { affected, last_id } => out.push(ExpUnit::Ok {
                affected: *affected,
                last_id: *last_id,
                more: true,
            }),
            Unit::BulkRows { n } => out.push(ExpUnit::Ok {
                affected: *n,
                last_id: 0,
                more: true,
            }),
            Unit::Rows(r) => {
                if let (Some(c), Some((CARRY_ON, _))) = (&r.contra, &r.recover) {
                    // the shim ignores the refused row and carries on with the rest: if the
                    // tree lets it (every later call reports success), the client is owed
                    // exactly the program without that row
                    let row = match c {
                        Contra::TooFewCols { row } => *row as usize,
                        _ => return None,
                    };
                    if !r.write_row || row >= r.rows.len() {
                        return None;
                    }
                    let mut p2 = p.clone();
                    for u2 in p2.units.iter_mut() {
                        if let Unit::Rows(r2) = u2 {
                            if r2.contra.as_ref() == Some(c) && r2.recover == r.recover {
                                r2.rows.remove(row);
                                r2.contra = None;
                                r2.recover = None;
                                break;
                            }
                        }
                    }
                    return Some(program_units(&p2));
                }
                if let (Some(c), Some((kind, msg))) = (&r.contra, &r.recover) {
                    let row = match c {
                        Contra::TooFewCols { row }
                        | Contra::TooManyCols { row, .. }
                        | Contra::NullIntoNotNull { row, .. }
                        | Contra::WrongKind { row, .. }
                        | Contra::RefusedRetry { row, .. }
                        | Contra::OfferedMaybe { row, .. } => *row as usize,
                    };
                    out.push(ExpUnit::Rows {
                        cols: r.cols.clone(),
                        rows: r.rows[..row.min(r.rows.len())].to_vec(),
                        term: ExpTerm::Err {
                            kind: *kind,
                            msg: msg.to_vec(),
                        },
                    });
                    return Some(out);
                }
                if r.contra.is_some() {
                    return None;
                }
                if r.cols.is_empty() {
                    out.push(ExpUnit::Ok {
                        affected: ended_rows(r),
                        last_id: 0,
                        more: true,
                    });
                } else {
                    out.push(ExpUnit::Rows {
                        cols: r.cols.clone(),
                        rows: r.rows.clone(),
                        term: ExpTerm::Eof { more: true },
                    });
                }
            }
        }
    }
    None
}

pub fn program_has_contra(p: &Program) -> bool {
    p.units.iter().any(|u| match u {
        Unit::Rows(r) => match &r.contra {
            None => false,
            // a contradiction aimed at a row/column that does not exist is no contradiction
            Some(Contra::TooFewCols { row }) | Some(Contra::TooManyCols { row, .. }) => {
                (*row as usize) < r.rows.len() && !r.cols.is_empty()
            }
            Some(Contra::NullIntoNotNull { row, col }) | Some(Contra::WrongKind { row, col, .. }) => {
                (*row as usize) < r.rows.len() && (*col as usize) < r.cols.len()
            }
            // a refused-and-retried value does not end anything
            Some(Contra::RefusedRetry { .. }) | Some(Contra::OfferedMaybe { .. }) => false,
        },
        _ => false,
    })
}

/// the program offers a value that must be refused and then carries on
pub fn program_has_retry(p: &Program) -> bool {
    p.units.iter().any(|u| match u {
        Unit::Rows(r) => match &r.contra {
            Some(Contra::RefusedRetry { row, col, .. }) => {
                !r.write_row && (*row as usize) < r.rows.len() && (*col as usize) < r.rows[*row as usize].len() && !r.cols.is_empty()
            }
            _ => false,
        },
        _ => false,
    })
}

pub fn ok_units() -> Reply {
    Reply::Units(vec![ExpUnit::Ok {
        affected: 0,
        last_id: 0,
        more: false,
    }])
}

pub fn build(plan: &Plan) -> Model {
    let hostile = plan.is_hostile();
    let mut stmts: BTreeMap<u32, St> = BTreeMap::new();
    let mut cmds = Vec::with_capacity(plan.cmds.len());
    let mut acts = Vec::new();
    let mut ended: Option<EndOfConn> = None;

    // authentication
    let (auth, auth_end) = {
        let user = match &plan.handshake.body {
            HsBody::V41 { user, .. } => Some(user.clone()),
            HsBody::V320 { user, .. } => Some(user.clone()),
            HsBody::Raw(_) => None,
        };
        let v41_ssl = matches!(&plan.handshake.body, HsBody::V41 { caps, .. } if caps & CLIENT_SSL != 0);
        let wants_tls = plan.cfg.tls.is_some() || v41_ssl;
        if wants_tls && !plan.cfg.tls_offered {
            // refused before after_authentication
            (None, Some(EndOfConn::IoErr))
        } else if wants_tls && plan.cfg.tls.is_none() {
            // SSL bit set, TLS offered, but the client never speaks TLS: hostile
            (None, Some(EndOfConn::Any))
        } else {
            let certs = match &plan.cfg.tls {
                Some(t) if t.cert && plan.cfg.tls_require_cert => {
                    Some(t.presented_chain())
                }
                _ => None,
            };
            let cb = Cb::Auth { user, certs };
            match plan.cfg.auth_reject {
                Some(tok) => (Some(cb), Some(EndOfConn::Token(tok))),
                None => (Some(cb), None),
            }
        }
    };
    if let Some(e) = auth_end {
        ended = Some(e);
    }

    for c in &plan.cmds {
        let live = ended.is_none();
        let mut m = CmdModel {
            routing: Routing::Exact(None),
            reply: Reply::None,
            grammar: Grammar::NoReply,
            eff_types: None,
            ends: None,
            live,
            expect_api_err: false,
            act_index: None,
            probe: false,
            recover: None,
        };
        // client-side type knowledge is tracked even for dead commands (the encoder needs it)
        match &c.kind {
            CmdKind::Query(t) => {
                m.grammar = Grammar::Text;
                let q = t.to_vec();
                let route = route_query(&q);
                match route {
                    QRoute::BuiltinMaxPacket => {
                        m.reply = Reply::BuiltinResultset;
                    }
                    QRoute::BuiltinVar => {
                        m.reply = ok_units();
                    }
                    _ if !is_utf8(&q) => {
                        m.routing = Routing::NeverWith(q);
                        m.reply = Reply::Unconstrained;
                        m.ends = Some(EndOfConn::Any);
                    }
                    QRoute::Use(name) => {
                        m.routing = Routing::Exact(Some(Cb::Init(name)));
                        apply_act(&mut m, &c.act, &mut acts, plan.cfg.default_on_init, true);
                    }
                    QRoute::Flex => {
                        m.routing = Routing::Flex(q);
                        m.reply = Reply::Unconstrained;
                        m.act_index = Some(acts.len());
                        acts.push(c.act.clone());
                    }
                    QRoute::Query => {
                        m.routing = Routing::Exact(Some(Cb::Query(q)));
                        apply_act(&mut m, &c.act, &mut acts, plan.cfg.default_on_init, false);
                    }
                }
            }
            CmdKind::Prepare(t) => {
                m.grammar = Grammar::Prepare;
                let q = t.to_vec();
                if !is_utf8(&q) {
                    m.routing = Routing::NeverWith(q);
                    m.reply = Reply::Unconstrained;
                    m.ends = Some(EndOfConn::Any);
                } else {
                    m.routing = Routing::Exact(Some(Cb::Prepare(q)));
                    m.act_index = Some(acts.len());
                    acts.push(c.act.clone());
                    match &c.act {
                        Act::Prepare(PrepAct::Reply { id, params, cols }) => {
                            m.reply = Reply::PrepareOk {
                                id: *id,
                                params: params.clone(),
                                cols: cols.clone(),
                            };
                            if live {
                                stmts.insert(
                                    *id,
                                    St {
                                        nparams: params.len(),
                                        types: None,
                                        long: BTreeMap::new(),
                                    },
                                );
                            }
                        }
                        Act::Prepare(PrepAct::Error { kind, msg }) => {
                            m.reply = Reply::Units(vec![ExpUnit::Err {
                                kind: *kind,
                                msg: msg.to_vec(),
                            }]);
                        }
                        Act::Prepare(PrepAct::ReturnErr(tok)) => {
                            m.reply = Reply::Unconstrained;
                            m.ends = Some(EndOfConn::Token(*tok));
                        }
                        _ => {
                            // shim default: reply(0-ish) – generator never does this
                            m.reply = Reply::Unconstrained;
                        }
                    }
                }
            }
            CmdKind::InitDb(t) => {
                m.grammar = Grammar::Text;
                let q = t.to_vec();
                if !is_utf8(&q) {
                    m.routing = Routing::NeverWith(q);
                    m.reply = Reply::Unconstrained;
                    m.ends = Some(EndOfConn::Any);
                } else {
                    m.routing = Routing::Exact(Some(Cb::Init(q)));
                    apply_act(&mut m, &c.act, &mut acts, plan.cfg.default_on_init, true);
                }
            }
            CmdKind::FieldList(_) => {
                m.grammar = Grammar::FieldList;
                m.reply = Reply::FieldList;
            }
            CmdKind::Ping => {
                m.grammar = Grammar::Text;
                m.reply = ok_units();
            }
            CmdKind::Quit => {
                m.ends = Some(EndOfConn::Ok);
            }
            CmdKind::Close(id) => {
                m.routing = Routing::Exact(Some(Cb::Close(*id)));
                if live {
                    stmts.remove(id);
                }
            }
            CmdKind::LongData { stmt, param, data } => {
                if live {
                    match stmts.get_mut(stmt) {
                        Some(st) => {
                            data.append_to(st.long.entry(*param).or_default());
                        }
                        None => {
                            m.ends = Some(EndOfConn::IoErr);
                        }
                    }
                }
            }
            CmdKind::Execute { stmt, block, .. } => {
                m.grammar = Grammar::Binary;
                if live {
                    match stmts.get_mut(stmt) {
                        None => {
                            m.ends = Some(EndOfConn::IoErr);
                            m.reply = Reply::Unconstrained;
                        }
                        Some(st) => {
                            if block.raw.is_some() {
                                m.reply = Reply::Unconstrained;
                                m.routing = Routing::Exact(None);
                                m.act_index = Some(acts.len());
                                acts.push(c.act.clone());
                                st.long.clear();
                                st.types = None;
                            } else if st.types.is_none() && block.bind.is_none() && st.nparams > 0 {
                                // values without any types bound for this incarnation of the
                                // statement (e.g. right after a re-PREPARE): nothing can be
                                // decoded faithfully, so the shim must not see this execution
                                m.eff_types = block.stale_types.clone();
                                m.routing = Routing::Exact(None);
                                m.reply = Reply::Unconstrained;
                                m.ends = Some(EndOfConn::Any);
                            } else {
                                if let Some(b) = &block.bind {
                                    st.types = Some(b.clone());
                                }
                                m.eff_types = st.types.clone();
                                let mut params = Vec::new();
                                let n = st.nparams;
                                for i in 0..n {
                                    let v = block.values.get(i).cloned().unwrap_or(PVal::Null);
                                    let (ty, fl) = st
                                        .types
                                        .as_ref()
                                        .and_then(|t| t.get(i).cloned())
                                        .unwrap_or((0xfd, 0));
                                    let mut sp = expected_param(&v, ty, fl);
                                    if !matches!(v, PVal::Null) {
                                        if let Some(ld) = st.long.get(&(i as u16)) {
                                            sp.val = SeenVal::Bytes(ld.clone());
                                            sp.conv = Conv::Bytes(ld.clone(), true);
                                        }
                                    }
                                    params.push(sp);
                                }
                                st.long.clear();
                                if let Act::Program(pg) = &c.act {
                                    if pg.pull_skip > 0 && pg.pull_params != Some(0) {
                                        let a = (pg.pull_skip as usize).min(params.len());
                                        params.drain(0..a);
                                    }
                                    if let Some(k) = pg.pull_params {
                                        params.truncate(k as usize);
                                    }
                                }
                                m.routing = Routing::Exact(Some(Cb::Execute {
                                    stmt: *stmt,
                                    params,
                                }));
                                apply_act(&mut m, &c.act, &mut acts, false, false);
                            }
                        }
                    }
                } else if let Some(b) = &block.bind {
                    m.eff_types = Some(b.clone());
                }
            }
            CmdKind::Raw(_) => {
                m.reply = Reply::Unconstrained;
                m.ends = Some(EndOfConn::Any);
                m.act_index = Some(acts.len());
                acts.push(c.act.clone());
            }
            CmdKind::Unsupported(_) => {
                // error or some answer: either way no callback belongs to it, and the generator
                // puts nothing valid behind it
                m.reply = Reply::Unconstrained;
                m.ends = Some(EndOfConn::Any);
            }
        }
        if !live {
            m.routing = Routing::Exact(None);
            m.reply = Reply::Unconstrained;
            m.ends = None;
            m.act_index = None;
        } else if let Some(e) = &m.ends {
            ended = Some(e.clone());
        }
        cmds.push(m);
    }
    let end = if hostile || cmds.iter().any(|c| c.probe || c.recover.is_some()) {
        EndOfConn::Any
    } else {
        ended.unwrap_or(EndOfConn::Ok)
    };
    Model {
        auth,
        cmds,
        end,
        acts,
        hostile,
    }
}

fn apply_act(m: &mut CmdModel, act: &Act, acts: &mut Vec<Act>, default_on_init: bool, is_init: bool) {
    if is_init && default_on_init {
        // the library's own default implementation runs: no shim callback is observable, but
        // the client is still owed exactly one reply
        m.routing = Routing::Exact(None);
        m.reply = Reply::OkOrErr;
        return;
    }
    m.act_index = Some(acts.len());
    acts.push(act.clone());
    match act {
        Act::Program(p) if !is_init => {
            if let Some(tok) = ret_err_reached(p) {
                m.reply = Reply::Unconstrained;
                m.ends = Some(EndOfConn::Token(tok));
            } else if program_has_contra(p) {
                m.reply = Reply::Unconstrained;
                m.expect_api_err = true;
                match recover_units(p) {
                    // whether finish_error can still be sent is up to the tree; if it reports
                    // success the reply is judged (judge::o_recover), otherwise the error ends
                    // the connection
                    Some(units) => m.recover = Some(units),
                    None => m.ends = Some(EndOfConn::IoErr),
                }
            } else if p.probe_cells {
                // the reply is decoded by grammar but judged by the C15 oracle; whether the
                // connection survives depends on what the tree refuses
                m.reply = Reply::Unconstrained;
                m.probe = true;
            } else {
                m.reply = Reply::Units(program_units(p));
                // exactly the offered-and-refused value fails; everything else reports success
                // and the reply is the one the program describes
                m.expect_api_err = program_has_retry(p);
            }
        }
        Act::Init(a) if is_init => {
            if default_on_init {
                // the library's own default implementation must still answer the client
                m.reply = ok_units();
            } else {
                match a {
                    InitAct::Ok => m.reply = ok_units(),
                    InitAct::Error { kind, msg } => {
                        m.reply = Reply::Units(vec![ExpUnit::Err {
                            kind: *kind,
                            msg: msg.to_vec(),
                        }])
                    }
                    InitAct::ReturnErr(tok) => {
                        m.reply = Reply::Unconstrained;
                        m.ends = Some(EndOfConn::Token(*tok));
                    }
                }
            }
        }
        _ => {
            // mismatched act kind: the shim falls back to a plain OK-style answer
            if is_init && default_on_init {
                m.reply = ok_units();
            } else {
                m.reply = ok_units();
            }
        }
    }
}
