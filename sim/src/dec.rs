//! Independent client-side decoder: packet reader + response state machine, written from the
//! protocol documentation. Shares no code with msql-srv.

use std::borrow::Cow;

pub const U24_MAX: usize = 0xFF_FFFF;

#[derive(Clone, Debug)]
pub struct Msg<'a> {
    pub payload: Cow<'a, [u8]>,
    /// sequence id of every physical packet of this message
    pub seqs: Vec<u8>,
    /// payload size of every physical packet
    pub sizes: Vec<u32>,
}

#[derive(Debug, Clone, PartialEq)]
pub enum Need {
    /// more bytes are needed (not an error by itself)
    Incomplete,
    Malformed(String),
}

type R<T> = Result<T, Need>;

fn mal<T>(s: impl Into<String>) -> R<T> {
    Err(Need::Malformed(s.into()))
}

/// Read one logical message starting at `pos`. Joins maximal 0xFFFFFF packets with the following
/// shorter one.
pub fn read_msg(bytes: &[u8], pos: usize) -> R<(Msg<'_>, usize)> {
    let mut p = pos;
    let mut seqs = Vec::with_capacity(1);
    let mut sizes = Vec::with_capacity(1);
    let mut joined: Option<Vec<u8>> = None;
    loop {
        if bytes.len() < p + 4 {
            return Err(Need::Incomplete);
        }
        let n = bytes[p] as usize | (bytes[p + 1] as usize) << 8 | (bytes[p + 2] as usize) << 16;
        let seq = bytes[p + 3];
        if bytes.len() < p + 4 + n {
            return Err(Need::Incomplete);
        }
        let body = &bytes[p + 4..p + 4 + n];
        p += 4 + n;
        seqs.push(seq);
        sizes.push(n as u32);
        if n == U24_MAX {
            joined.get_or_insert_with(Vec::new).extend_from_slice(body);
            continue;
        }
        let payload = match joined {
            Some(mut j) => {
                j.extend_from_slice(body);
                Cow::Owned(j)
            }
            None => Cow::Borrowed(body),
        };
        return Ok((
            Msg {
                payload,
                seqs,
                sizes,
            },
            p,
        ));
    }
}

pub struct Cur<'a> {
    pub b: &'a [u8],
    pub p: usize,
}

impl<'a> Cur<'a> {
    pub fn new(b: &'a [u8]) -> Cur<'a> {
        Cur { b, p: 0 }
    }
    pub fn left(&self) -> usize {
        self.b.len() - self.p
    }
    pub fn u8(&mut self) -> R<u8> {
        if self.left() < 1 {
            return mal("truncated u8");
        }
        let v = self.b[self.p];
        self.p += 1;
        Ok(v)
    }
    pub fn take(&mut self, n: usize) -> R<&'a [u8]> {
        if self.left() < n {
            return mal(format!("truncated field: want {} have {}", n, self.left()));
        }
        let s = &self.b[self.p..self.p + n];
        self.p += n;
        Ok(s)
    }
    pub fn u16(&mut self) -> R<u16> {
        let s = self.take(2)?;
        Ok(u16::from_le_bytes([s[0], s[1]]))
    }
    pub fn u32(&mut self) -> R<u32> {
        let s = self.take(4)?;
        Ok(u32::from_le_bytes([s[0], s[1], s[2], s[3]]))
    }
    pub fn u64(&mut self) -> R<u64> {
        let s = self.take(8)?;
        let mut a = [0u8; 8];
        a.copy_from_slice(s);
        Ok(u64::from_le_bytes(a))
    }
    /// lenenc integer; accepts non-minimal encodings; None for 0xFB (NULL)
    pub fn lenenc(&mut self) -> R<Option<u64>> {
        let f = self.u8()?;
        Ok(match f {
            0xFB => None,
            0xFC => Some(self.u16()? as u64),
            0xFD => {
                let s = self.take(3)?;
                Some(s[0] as u64 | (s[1] as u64) << 8 | (s[2] as u64) << 16)
            }
            0xFE => Some(self.u64()?),
            0xFF => return mal("0xFF is not a length-encoded integer"),
            x => Some(x as u64),
        })
    }
    pub fn lenenc_int(&mut self) -> R<u64> {
        match self.lenenc()? {
            Some(v) => Ok(v),
            None => mal("NULL where a length-encoded integer was expected"),
        }
    }
    pub fn lenenc_bytes(&mut self) -> R<Option<&'a [u8]>> {
        match self.lenenc()? {
            None => Ok(None),
            Some(n) => {
                if n > self.left() as u64 {
                    return mal(format!(
                        "length-encoded string of {} bytes exceeds the {} left",
                        n,
                        self.left()
                    ));
                }
                Ok(Some(self.take(n as usize)?))
            }
        }
    }
    pub fn lenenc_str(&mut self) -> R<&'a [u8]> {
        match self.lenenc_bytes()? {
            Some(b) => Ok(b),
            None => mal("NULL where a string was expected"),
        }
    }
}

#[derive(Clone, Debug, PartialEq)]
pub struct DecCol {
    pub schema: Vec<u8>,
    pub table: Vec<u8>,
    pub org_table: Vec<u8>,
    pub name: Vec<u8>,
    pub org_name: Vec<u8>,
    pub charset: u16,
    pub collen: u32,
    pub coltype: u8,
    pub flags: u16,
    pub decimals: u8,
}

#[derive(Clone, Debug, PartialEq)]
pub struct DecErr {
    pub code: u16,
    pub state: [u8; 5],
    pub msg: Vec<u8>,
}

#[derive(Clone, Debug, PartialEq)]
pub struct DecOk {
    pub affected: u64,
    pub last_id: u64,
    pub status: u16,
    pub warnings: u16,
    pub info: Vec<u8>,
}

#[derive(Clone, Debug, PartialEq)]
pub enum BinVal {
    Null,
    Int(i64),
    UInt(u64),
    F32(u32),
    F64(u64),
    Bytes(Vec<u8>),
    /// DATE/DATETIME/TIMESTAMP body (0/4/7/11 bytes)
    Date(Vec<u8>),
    /// TIME body (0/8/12 bytes)
    Time(Vec<u8>),
}

#[derive(Clone, Debug, PartialEq)]
pub enum DecRow {
    Text(Vec<Option<Vec<u8>>>),
    Bin { cells: Vec<BinVal>, bitmap: Vec<u8> },
}

#[derive(Clone, Debug, PartialEq)]
pub enum DecTerm {
    Eof { status: u16, warnings: u16 },
    Err(DecErr),
}

#[derive(Clone, Debug, PartialEq)]
pub enum DecUnit {
    Rows {
        cols: Vec<DecCol>,
        mid_status: u16,
        rows: Vec<DecRow>,
        term: DecTerm,
    },
    Ok(DecOk),
    Err(DecErr),
}

#[derive(Clone, Debug, PartialEq)]
pub enum DecResp {
    Units(Vec<DecUnit>),
    PrepareOk {
        id: u32,
        ncols: u16,
        nparams: u16,
        warnings: u16,
        params: Vec<DecCol>,
        cols: Vec<DecCol>,
    },
    FieldList(Vec<DecCol>),
}

#[derive(Clone, Debug)]
pub struct Decoded {
    pub resp: DecResp,
    /// sequence ids of all physical packets of the response, in order
    pub seqs: Vec<u8>,
    /// number of logical messages
    pub msgs: usize,
    /// size of the largest logical message
    pub max_msg: usize,
    /// raw payload of every message (kept for the second-opinion decoder); only for small ones
    pub raw: Vec<Vec<u8>>,
}

#[derive(Clone, Copy, Debug, PartialEq, Eq)]
pub enum Gr {
    Text,
    Binary,
    Prepare,
    FieldList,
}

pub const SERVER_MORE_RESULTS_EXISTS: u16 = 0x0008;

pub fn parse_err(p: &[u8]) -> R<DecErr> {
    let mut c = Cur::new(p);
    let h = c.u8()?;
    if h != 0xFF {
        return mal("not an ERR packet");
    }
    let code = c.u16()?;
    let marker = c.u8()?;
    if marker != b'#' {
        return mal(format!("ERR packet without '#' marker (got {:#x})", marker));
    }
    let st = c.take(5)?;
    let mut state = [0u8; 5];
    state.copy_from_slice(st);
    let msg = c.take(c.left())?.to_vec();
    Ok(DecErr { code, state, msg })
}

pub fn parse_ok(p: &[u8]) -> R<DecOk> {
    let mut c = Cur::new(p);
    let h = c.u8()?;
    if h != 0x00 {
        return mal("not an OK packet");
    }
    let affected = c.lenenc_int()?;
    let last_id = c.lenenc_int()?;
    let status = c.u16()?;
    let warnings = c.u16()?;
    let info = c.take(c.left())?.to_vec();
    Ok(DecOk {
        affected,
        last_id,
        status,
        warnings,
        info,
    })
}

pub fn is_eof(p: &[u8]) -> bool {
    !p.is_empty() && p[0] == 0xFE && p.len() < 9
}

pub fn parse_eof(p: &[u8]) -> R<(u16, u16)> {
    if p.len() != 5 || p[0] != 0xFE {
        return mal(format!("malformed EOF packet of {} bytes", p.len()));
    }
    let warnings = u16::from_le_bytes([p[1], p[2]]);
    let status = u16::from_le_bytes([p[3], p[4]]);
    Ok((status, warnings))
}

pub fn parse_coldef(p: &[u8], field_list: bool) -> R<DecCol> {
    let mut c = Cur::new(p);
    let catalog = c.lenenc_str()?;
    if catalog != b"def" {
        return mal("column definition: catalog is not \"def\"");
    }
    let schema = c.lenenc_str()?.to_vec();
    let table = c.lenenc_str()?.to_vec();
    let org_table = c.lenenc_str()?.to_vec();
    let name = c.lenenc_str()?.to_vec();
    let org_name = c.lenenc_str()?.to_vec();
    let fixed = c.lenenc_int()?;
    if fixed != 0x0c {
        return mal(format!("column definition: fixed-length marker {:#x} != 0x0c", fixed));
    }
    let charset = c.u16()?;
    let collen = c.u32()?;
    let coltype = c.u8()?;
    let flags = c.u16()?;
    let decimals = c.u8()?;
    let _filler = c.take(2)?;
    if field_list {
        // default value: lenenc string or NULL
        let _ = c.lenenc_bytes()?;
    }
    if c.left() != 0 {
        return mal(format!("column definition: {} trailing bytes", c.left()));
    }
    Ok(DecCol {
        schema,
        table,
        org_table,
        name,
        org_name,
        charset,
        collen,
        coltype,
        flags,
        decimals,
    })
}

pub const UNSIGNED_FLAG: u16 = 0x20;
pub const NOT_NULL_FLAG: u16 = 0x01;

pub fn parse_bin_row(p: &[u8], cols: &[DecCol]) -> R<DecRow> {
    let mut c = Cur::new(p);
    let h = c.u8()?;
    if h != 0x00 {
        return mal(format!("binary row header {:#x} != 0x00", h));
    }
    let bl = (cols.len() + 7 + 2) / 8;
    let bitmap = c.take(bl)?.to_vec();
    let mut cells = Vec::with_capacity(cols.len());
    for (i, col) in cols.iter().enumerate() {
        let bit = i + 2;
        if bitmap[bit / 8] & (1 << (bit % 8)) != 0 {
            cells.push(BinVal::Null);
            continue;
        }
        let unsigned = col.flags & UNSIGNED_FLAG != 0;
        let v = match col.coltype {
            0x01 => {
                let b = c.u8()?;
                if unsigned {
                    BinVal::UInt(b as u64)
                } else {
                    BinVal::Int(b as i8 as i64)
                }
            }
            0x02 | 0x0d => {
                let b = c.u16()?;
                if unsigned {
                    BinVal::UInt(b as u64)
                } else {
                    BinVal::Int(b as i16 as i64)
                }
            }
            0x03 | 0x09 => {
                let b = c.u32()?;
                if unsigned {
                    BinVal::UInt(b as u64)
                } else {
                    BinVal::Int(b as i32 as i64)
                }
            }
            0x08 => {
                let b = c.u64()?;
                if unsigned {
                    BinVal::UInt(b)
                } else {
                    BinVal::Int(b as i64)
                }
            }
            0x04 => BinVal::F32(c.u32()?),
            0x05 => BinVal::F64(c.u64()?),
            0x07 | 0x0c | 0x0a => {
                let n = c.u8()? as usize;
                if !matches!(n, 0 | 4 | 7 | 11) {
                    return mal(format!("date/datetime length byte {}", n));
                }
                BinVal::Date(c.take(n)?.to_vec())
            }
            0x0b => {
                let n = c.u8()? as usize;
                if !matches!(n, 0 | 8 | 12) {
                    return mal(format!("time length byte {}", n));
                }
                BinVal::Time(c.take(n)?.to_vec())
            }
            0x00 | 0x0f | 0x10 | 0xf5 | 0xf6 | 0xf7 | 0xf8 | 0xf9 | 0xfa | 0xfb | 0xfc | 0xfd
            | 0xfe | 0xff => BinVal::Bytes(c.lenenc_str()?.to_vec()),
            0x06 => BinVal::Null,
            t => return mal(format!("binary row: column type {:#x} has no binary encoding", t)),
        };
        cells.push(v);
    }
    if c.left() != 0 {
        return mal(format!("binary row: {} trailing bytes", c.left()));
    }
    // bits outside the column range must be zero
    for bit in 0..bl * 8 {
        let used = bit >= 2 && bit < cols.len() + 2;
        if !used && bitmap[bit / 8] & (1 << (bit % 8)) != 0 {
            return mal(format!("binary row: NULL-bitmap bit {} set outside the columns", bit));
        }
    }
    Ok(DecRow::Bin { cells, bitmap })
}

pub fn parse_text_row(p: &[u8], ncols: usize) -> R<DecRow> {
    let mut c = Cur::new(p);
    let mut cells = Vec::with_capacity(ncols);
    for _ in 0..ncols {
        cells.push(c.lenenc_bytes()?.map(|b| b.to_vec()));
    }
    if c.left() != 0 {
        return mal(format!("text row: {} trailing bytes", c.left()));
    }
    Ok(DecRow::Text(cells))
}

struct Rd<'a> {
    bytes: &'a [u8],
    pos: usize,
    seqs: Vec<u8>,
    msgs: usize,
    max_msg: usize,
    raw: Vec<Vec<u8>>,
}

impl<'a> Rd<'a> {
    fn next(&mut self) -> R<Cow<'a, [u8]>> {
        let (m, np) = read_msg(self.bytes, self.pos)?;
        self.pos = np;
        self.seqs.extend_from_slice(&m.seqs);
        self.msgs += 1;
        self.max_msg = self.max_msg.max(m.payload.len());
        if m.payload.len() <= 4096 && self.raw.len() < 4096 {
            self.raw.push(m.payload.to_vec());
        } else {
            self.raw.push(Vec::new());
        }
        Ok(m.payload)
    }
}

/// Try to decode one complete response of grammar `gr` from the start of `bytes`.
/// Returns the decoded response and the number of bytes consumed.
pub fn decode_reply(bytes: &[u8], gr: Gr) -> R<(Decoded, usize)> {
    let mut rd = Rd {
        bytes,
        pos: 0,
        seqs: Vec::new(),
        msgs: 0,
        max_msg: 0,
        raw: Vec::new(),
    };
    let resp = match gr {
        Gr::Text | Gr::Binary => DecResp::Units(decode_units(&mut rd, gr == Gr::Binary)?),
        Gr::Prepare => decode_prepare(&mut rd)?,
        Gr::FieldList => decode_field_list(&mut rd)?,
    };
    let pos = rd.pos;
    Ok((
        Decoded {
            resp,
            seqs: rd.seqs,
            msgs: rd.msgs,
            max_msg: rd.max_msg,
            raw: rd.raw,
        },
        pos,
    ))
}

fn decode_units(rd: &mut Rd<'_>, binary: bool) -> R<Vec<DecUnit>> {
    let mut units = Vec::new();
    loop {
        let first = rd.next()?;
        if first.is_empty() {
            return mal("empty message where a response was expected");
        }
        match first[0] {
            0xFF => {
                units.push(DecUnit::Err(parse_err(&first)?));
                return Ok(units);
            }
            0x00 => {
                let ok = parse_ok(&first)?;
                let more = ok.status & SERVER_MORE_RESULTS_EXISTS != 0;
                units.push(DecUnit::Ok(ok));
                if more {
                    continue;
                }
                return Ok(units);
            }
            0xFE if first.len() < 9 => {
                return mal("EOF packet where a response was expected");
            }
            0xFB => return mal("LOCAL INFILE request where a response was expected"),
            _ => {}
        }
        let mut c = Cur::new(&first);
        let n = c.lenenc_int()?;
        if c.left() != 0 {
            return mal("column-count packet has trailing bytes");
        }
        if n == 0 || n > 65_535 * 4 {
            return mal(format!("implausible column count {}", n));
        }
        let mut cols = Vec::with_capacity(n as usize);
        for _ in 0..n {
            let p = rd.next()?;
            if is_eof(&p) || (!p.is_empty() && p[0] == 0xFF) {
                return mal("column definitions ended early");
            }
            cols.push(parse_coldef(&p, false)?);
        }
        let p = rd.next()?;
        if !is_eof(&p) {
            return mal("missing EOF after column definitions");
        }
        let (mid_status, _) = parse_eof(&p)?;
        // SERVER_STATUS_CURSOR_EXISTS / LAST_ROW_SENT on the EOF that ends the column definitions
        // tell a client that the rows do NOT follow inline (it is to fetch them through the
        // cursor): a reply that then carries its rows inline is not one a client can decode
        if mid_status & 0x00C0 != 0 {
            return mal(format!(
                "EOF after column definitions announces a cursor (status {:#06x}) but the rows follow inline",
                mid_status
            ));
        }
        let mut rows = Vec::new();
        let term;
        loop {
            let p = rd.next()?;
            if is_eof(&p) {
                let (status, warnings) = parse_eof(&p)?;
                term = DecTerm::Eof { status, warnings };
                break;
            }
            if !p.is_empty() && p[0] == 0xFF {
                term = DecTerm::Err(parse_err(&p)?);
                break;
            }
            if binary {
                rows.push(parse_bin_row(&p, &cols)?);
            } else {
                rows.push(parse_text_row(&p, cols.len())?);
            }
        }
        let more = matches!(term, DecTerm::Eof { status, .. } if status & SERVER_MORE_RESULTS_EXISTS != 0);
        units.push(DecUnit::Rows {
            cols,
            mid_status,
            rows,
            term,
        });
        if !more {
            return Ok(units);
        }
    }
}

fn decode_prepare(rd: &mut Rd<'_>) -> R<DecResp> {
    let first = rd.next()?;
    if first.is_empty() {
        return mal("empty message where a PREPARE response was expected");
    }
    if first[0] == 0xFF {
        return Ok(DecResp::Units(vec![DecUnit::Err(parse_err(&first)?)]));
    }
    if first[0] != 0x00 || first.len() != 12 {
        return mal(format!(
            "COM_STMT_PREPARE_OK: first byte {:#x}, length {}",
            first[0],
            first.len()
        ));
    }
    let mut c = Cur::new(&first);
    c.u8()?;
    let id = c.u32()?;
    let ncols = c.u16()?;
    let nparams = c.u16()?;
    let _filler = c.u8()?;
    let warnings = c.u16()?;
    let mut params = Vec::new();
    let mut cols = Vec::new();
    for (n, dst) in [(nparams, &mut params), (ncols, &mut cols)] {
        if n > 0 {
            for _ in 0..n {
                let p = rd.next()?;
                if is_eof(&p) {
                    return mal("PREPARE definitions ended early");
                }
                dst.push(parse_coldef(&p, false)?);
            }
            let p = rd.next()?;
            if !is_eof(&p) {
                return mal("missing EOF after PREPARE definition block");
            }
            parse_eof(&p)?;
        }
    }
    Ok(DecResp::PrepareOk {
        id,
        ncols,
        nparams,
        warnings,
        params,
        cols,
    })
}

fn decode_field_list(rd: &mut Rd<'_>) -> R<DecResp> {
    let mut cols = Vec::new();
    loop {
        let p = rd.next()?;
        if p.is_empty() {
            return mal("empty message in COM_FIELD_LIST response");
        }
        if p[0] == 0xFF {
            return Ok(DecResp::Units(vec![DecUnit::Err(parse_err(&p)?)]));
        }
        if is_eof(&p) {
            parse_eof(&p)?;
            return Ok(DecResp::FieldList(cols));
        }
        cols.push(parse_coldef(&p, true)?);
        if cols.len() > 100_000 {
            return mal("COM_FIELD_LIST response does not end");
        }
    }
}

#[derive(Clone, Debug, PartialEq)]
pub struct Greeting {
    pub seq: u8,
    pub protocol: u8,
    pub version: Vec<u8>,
    pub conn_id: u32,
    pub scramble1: Vec<u8>,
    pub caps: u32,
    pub charset: u8,
    pub status: u16,
    pub auth_len: u8,
    pub scramble2: Vec<u8>,
    pub plugin: Vec<u8>,
    pub raw: Vec<u8>,
}

/// HandshakeV10
pub fn decode_greeting(bytes: &[u8]) -> R<(Greeting, usize)> {
    let (m, np) = read_msg(bytes, 0)?;
    if m.seqs.len() != 1 {
        return mal("greeting spans several packets");
    }
    let p = &m.payload;
    let mut c = Cur::new(p);
    let protocol = c.u8()?;
    let rest = &p[c.p..];
    let nul = match rest.iter().position(|b| *b == 0) {
        Some(i) => i,
        None => return mal("greeting: server version is not NUL-terminated"),
    };
    let version = c.take(nul)?.to_vec();
    c.u8()?;
    let conn_id = c.u32()?;
    let scramble1 = c.take(8)?.to_vec();
    let filler = c.u8()?;
    if filler != 0 {
        return mal("greeting: filler after auth-plugin-data-part-1 is not 0");
    }
    let caps_lo = c.u16()?;
    let mut caps = caps_lo as u32;
    let mut charset = 0;
    let mut status = 0;
    let mut auth_len = 0;
    let mut scramble2 = Vec::new();
    let mut plugin = Vec::new();
    if c.left() > 0 {
        charset = c.u8()?;
        status = c.u16()?;
        let caps_hi = c.u16()?;
        caps |= (caps_hi as u32) << 16;
        auth_len = c.u8()?;
        let reserved = c.take(10)?;
        if reserved.iter().any(|b| *b != 0) {
            return mal("greeting: the 10 reserved bytes are not all 0");
        }
        // CLIENT_SECURE_CONNECTION (0x8000): part 2 has max(13, auth_len - 8) bytes
        if caps & 0x8000 != 0 {
            let n = std::cmp::max(13, auth_len as i32 - 8) as usize;
            scramble2 = c.take(n)?.to_vec();
            // part 2 is the rest of a NUL-terminated string of at least 20 bytes in all
            if scramble2.last() != Some(&0) {
                return mal("greeting: auth-plugin-data-part-2 is not NUL-terminated");
            }
            if scramble1.iter().chain(&scramble2[..scramble2.len() - 1]).any(|b| *b == 0) {
                return mal("greeting: NUL inside the auth-plugin-data");
            }
        }
        // CLIENT_PLUGIN_AUTH (1 << 19)
        if caps & (1 << 19) != 0 {
            let rest = &p[c.p..];
            let n = rest.iter().position(|b| *b == 0).unwrap_or(rest.len());
            plugin = c.take(n)?.to_vec();
            if c.left() > 0 {
                c.u8()?;
            }
        }
    }
    Ok((
        Greeting {
            seq: m.seqs[0],
            protocol,
            version,
            conn_id,
            scramble1,
            caps,
            charset,
            status,
            auth_len,
            scramble2,
            plugin,
            raw: p.to_vec(),
        },
        np,
    ))
}
