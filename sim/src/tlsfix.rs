//! TLS fixtures (Ed25519 certificates; signatures are deterministic)
pub fn server_cert() -> &'static [u8] {
    include_bytes!("../../fixtures/tls/server.crt.der")
}
pub fn server_key() -> &'static [u8] {
    include_bytes!("../../fixtures/tls/server.key.der")
}
pub fn client_cert() -> &'static [u8] {
    include_bytes!("../../fixtures/tls/client.crt.der")
}
pub fn client_key() -> &'static [u8] {
    include_bytes!("../../fixtures/tls/client.key.der")
}
