//! Oracles: compare an Outcome with the reference model. Each oracle yields violations tagged
//! with a rule name; each property check decides which rules it reports.

use crate::dec::{self, BinVal, DecCol, DecErr, DecOk, DecResp, DecRow, DecTerm, DecUnit};
use crate::model::*;
use crate::panichook;
use crate::plan::*;
use crate::sim::{Outcome, RunEnd};

#[derive(Clone, Debug, PartialEq)]
pub struct Violation {
    pub rule: &'static str,
    /// stable, value-independent description of where (used for signatures / known findings)
    pub site: String,
    pub detail: String,
}

fn v(rule: &'static str, site: impl Into<String>, detail: impl Into<String>) -> Violation {
    Violation {
        rule,
        site: site.into(),
        detail: detail.into(),
    }
}

pub fn unit_name(plan: &Plan, u: usize) -> String {
    if u == 0 {
        return "handshake".into();
    }
    match plan.cmds.get(u - 1).map(|c| &c.kind) {
        Some(CmdKind::Query(_)) => "query".into(),
        Some(CmdKind::Prepare(_)) => "prepare".into(),
        Some(CmdKind::InitDb(_)) => "init_db".into(),
        Some(CmdKind::FieldList(_)) => "field_list".into(),
        Some(CmdKind::Ping) => "ping".into(),
        Some(CmdKind::Quit) => "quit".into(),
        Some(CmdKind::Close(_)) => "close".into(),
        Some(CmdKind::Execute { .. }) => "execute".into(),
        Some(CmdKind::LongData { .. }) => "long_data".into(),
        Some(CmdKind::Raw(_)) => "raw".into(),
        Some(CmdKind::Unsupported(_)) => "unsupported command".into(),
        None => "?".into(),
    }
}

// ------------------------------------------------------------------------------------------
// end of connection

pub fn o_end(plan: &Plan, out: &Outcome, vs: &mut Vec<Violation>) {
    let faulted = out.w.fault_fired.is_some();
    if out.w.op_budget_exceeded {
        // the conversation is finite, so is the work it can cause: a run that performs more
        // transport operations than any legitimate one is spinning on the transport
        vs.push(v(
            "wedged",
            "operation budget",
            format!("run performed more than {} transport operations", crate::stream::OP_BUDGET),
        ));
        return;
    }
    if let RunEnd::Panic { loc, msg } = &out.end {
        vs.push(v(
            "panic",
            panichook::normalise(loc, msg),
            format!("run_on panicked at {}: {}", loc, msg),
        ));
        return;
    }
    if faulted || out.model.hostile {
        return;
    }
    let _ = plan;
    match (&out.model.end, &out.end) {
        (EndOfConn::Any, _) => {}
        (EndOfConn::Ok, RunEnd::Ok) => {}
        (EndOfConn::IoErr, RunEnd::IoErr { .. }) => {}
        (EndOfConn::Token(a), RunEnd::Token(b)) if a == b => {}
        (exp, got) => vs.push(v(
            "end",
            format!("expected {} got {}", end_class(exp), got.class()),
            format!("run_on returned {:?}, the model expects {:?}", got, exp),
        )),
    }
}

fn end_class(e: &EndOfConn) -> &'static str {
    match e {
        EndOfConn::Ok => "ok",
        EndOfConn::IoErr => "ioerr",
        EndOfConn::Token(_) => "token",
        EndOfConn::Any => "any",
    }
}

// ------------------------------------------------------------------------------------------
// callbacks

fn param_eq(exp: &SeenParam, got: &SeenParam) -> Result<(), String> {
    if exp.coltype != got.coltype {
        return Err(format!(
            "type code {:#x} delivered, {:#x} bound",
            got.coltype, exp.coltype
        ));
    }
    if exp.val != got.val {
        return Err(format!("value {:?} delivered, {:?} sent", short_val(&got.val), short_val(&exp.val)));
    }
    if exp.conv != Conv::Any && got.conv != Conv::Any && exp.conv != got.conv {
        return Err(format!(
            "conversion gave {:?}, client encoded {:?}",
            short_conv(&got.conv),
            short_conv(&exp.conv)
        ));
    }
    Ok(())
}

fn short_val(s: &SeenVal) -> String {
    match s {
        SeenVal::Bytes(b) if b.len() > 32 => format!("Bytes(<{} bytes fnv {:x}>)", b.len(), crate::rng::fnv(b)),
        o => format!("{:?}", o),
    }
}

fn short_conv(s: &Conv) -> String {
    match s {
        Conv::Bytes(b, ok) if b.len() > 32 => format!("Bytes(<{} bytes>, {})", b.len(), ok),
        o => format!("{:?}", o),
    }
}

/// Err((rule, site, detail)); rule is "callback-args" for routing/argument mismatches and
/// "param-count" / "param-type" / "param-value" / "param-conv" for parameter-level ones
fn cb_eq(exp: &Cb, got: &Cb) -> Result<(), (&'static str, String, String)> {
    match (exp, got) {
        (Cb::Execute { stmt: a, params: pa }, Cb::Execute { stmt: b, params: pb }) => {
            if a != b {
                return Err(("callback-args", "execute stmt id".into(), format!("id {} delivered, {} sent", b, a)));
            }
            if pa.len() != pb.len() {
                return Err((
                    "param-count",
                    "execute param count".into(),
                    format!("{} parameters delivered, {} declared", pb.len(), pa.len()),
                ));
            }
            for (i, (x, y)) in pa.iter().zip(pb.iter()).enumerate() {
                if let Err(e) = param_eq(x, y) {
                    let (rule, what) = if x.coltype != y.coltype {
                        ("param-type", "param type".to_string())
                    } else if x.val != y.val {
                        ("param-value", format!("param value (type {:#x})", x.coltype))
                    } else {
                        ("param-conv", format!("param conversion (type {:#x})", x.coltype))
                    };
                    return Err((rule, what, format!("param #{}: {}", i, e)));
                }
            }
            Ok(())
        }
        (a, b) if a == b => Ok(()),
        (a, b) if a.kind() != b.kind() => Err((
            "callback-args",
            format!("{} instead of {}", b.kind(), a.kind()),
            format!("got {}, expected {}", b.short(), a.short()),
        )),
        (a, b) => Err((
            "callback-args",
            format!("{} args", a.kind()),
            format!("got {}, expected {}", b.short(), a.short()),
        )),
    }
}

pub fn o_callbacks(plan: &Plan, out: &Outcome, vs: &mut Vec<Violation>) {
    if out.model.hostile {
        return;
    }
    let faulted = out.w.fault_fired.is_some();
    let got = &out.w.callbacks;
    let mut gi = 0usize;
    let panicked = matches!(out.end, RunEnd::Panic { .. });
    macro_rules! expect {
        ($exp:expr, $unit:expr) => {{
            match got.get(gi) {
                None => {
                    if !faulted && !panicked {
                        vs.push(v(
                            "callback-missing",
                            format!("{} after {}", $exp.kind(), unit_name(plan, $unit)),
                            format!(
                                "unit {} ({}): expected callback {} never happened",
                                $unit,
                                unit_name(plan, $unit),
                                $exp.short()
                            ),
                        ));
                    }
                    return;
                }
                Some((_, g)) => {
                    if let Err((rule, site, d)) = cb_eq($exp, g) {
                        vs.push(v(
                            rule,
                            site,
                            format!("unit {} ({}): {}", $unit, unit_name(plan, $unit), d),
                        ));
                        if rule == "callback-args" {
                            return;
                        }
                        // parameter-level mismatch: routing is still comparable
                    }
                    gi += 1;
                }
            }
        }};
    }
    if let Some(a) = &out.model.auth {
        expect!(a, 0);
    }
    for (i, m) in out.model.cmds.iter().enumerate() {
        if !m.live {
            break;
        }
        match &m.routing {
            Routing::Exact(None) => {}
            Routing::Exact(Some(cb)) => expect!(cb, i + 1),
            Routing::Flex(q) => match got.get(gi) {
                Some((_, Cb::Query(g))) if g == q => gi += 1,
                Some((_, Cb::Init(_))) => gi += 1,
                None if faulted || panicked => return,
                other => {
                    vs.push(v(
                        "callback-args",
                        "flex query",
                        format!(
                            "unit {}: expected on_query(verbatim) or on_init, got {:?}",
                            i + 1,
                            other.map(|x| x.1.short())
                        ),
                    ));
                    return;
                }
            },
            Routing::NeverWith(q) => {
                // text that is not valid UTF-8 must not reach the shim in any form (verbatim,
                // repaired or truncated): the generators put it last, so nothing may follow
                if let Some((_, g)) = got.get(gi) {
                    vs.push(v(
                        "callback-args",
                        "non-utf8 text handed to shim",
                        format!(
                            "unit {}: the client sent {} bytes that are not valid UTF-8 (fnv {:x}); the shim got {}",
                            i + 1,
                            q.len(),
                            crate::rng::fnv(q),
                            g.short()
                        ),
                    ));
                }
                return;
            }
        }
        if m.ends.is_some() {
            break;
        }
        if m.recover.is_some() && !recover_succeeded(out, m) {
            return;
        }
    }
    if gi < got.len() {
        vs.push(v(
            "callback-extra",
            format!("{}", got[gi].1.kind()),
            format!(
                "{} unexpected callback(s), first: {}",
                got.len() - gi,
                got[gi].1.short()
            ),
        ));
    }
}

// ------------------------------------------------------------------------------------------
// value comparison

fn int_of_cell(c: &Cell) -> Option<i128> {
    Some(match c {
        Cell::U8(x) => *x as i128,
        Cell::I8(x) => *x as i128,
        Cell::U16(x) => *x as i128,
        Cell::I16(x) => *x as i128,
        Cell::U32(x) => *x as i128,
        Cell::I32(x) => *x as i128,
        Cell::U64(x) => *x as i128,
        Cell::I64(x) => *x as i128,
        Cell::Usize(x) => *x as i128,
        Cell::Isize(x) => *x as i128,
        Cell::Myc(MycV::Int(x)) => *x as i128,
        Cell::Myc(MycV::UInt(x)) => *x as i128,
        _ => return None,
    })
}

fn parse_uint(b: &[u8]) -> Option<u64> {
    if b.is_empty() || !b.iter().all(|c| c.is_ascii_digit()) {
        return None;
    }
    std::str::from_utf8(b).ok()?.parse().ok()
}

fn parse_date(b: &[u8]) -> Option<(i32, u32, u32)> {
    // YYYY-MM-DD
    if b.len() != 10 || b[4] != b'-' || b[7] != b'-' {
        return None;
    }
    Some((
        parse_uint(&b[0..4])? as i32,
        parse_uint(&b[5..7])? as u32,
        parse_uint(&b[8..10])? as u32,
    ))
}

fn parse_frac(b: &[u8]) -> Option<u32> {
    // ".ffffff" (1..6 digits) or empty
    if b.is_empty() {
        return Some(0);
    }
    if b[0] != b'.' || b.len() < 2 || b.len() > 7 {
        return None;
    }
    let mut us = parse_uint(&b[1..])? as u32;
    for _ in 0..(7 - b.len()) {
        us *= 10;
    }
    Some(us)
}

fn parse_datetime(b: &[u8]) -> Option<(i32, u32, u32, u32, u32, u32, u32)> {
    if b.len() == 10 {
        let (y, m, d) = parse_date(b)?;
        return Some((y, m, d, 0, 0, 0, 0));
    }
    if b.len() < 19 || b[10] != b' ' || b[13] != b':' || b[16] != b':' {
        return None;
    }
    let (y, m, d) = parse_date(&b[..10])?;
    Some((
        y,
        m,
        d,
        parse_uint(&b[11..13])? as u32,
        parse_uint(&b[14..16])? as u32,
        parse_uint(&b[17..19])? as u32,
        parse_frac(&b[19..])?,
    ))
}

/// `[-]H+:MM:SS[.ffffff]` -> (negative, total microseconds)
fn parse_time(b: &[u8]) -> Option<(bool, u128)> {
    let (neg, b) = if b.first() == Some(&b'-') {
        (true, &b[1..])
    } else {
        (false, b)
    };
    let c1 = b.iter().position(|c| *c == b':')?;
    if b.len() < c1 + 6 || b[c1 + 3] != b':' {
        return None;
    }
    let h = parse_uint(&b[..c1])? as u128;
    let m = parse_uint(&b[c1 + 1..c1 + 3])? as u128;
    let s = parse_uint(&b[c1 + 4..c1 + 6])? as u128;
    if m > 59 || s > 59 {
        return None;
    }
    let us = parse_frac(&b[c1 + 6..])? as u128;
    Some((neg, ((h * 60 + m) * 60 + s) * 1_000_000 + us))
}

fn sb(b: &[u8]) -> String {
    if b.len() <= 48 {
        format!("{:?}", String::from_utf8_lossy(b))
    } else {
        format!("<{} bytes fnv {:x}>", b.len(), crate::rng::fnv(b))
    }
}

fn bytes_eq(exp: &[u8], got: &[u8]) -> Result<(), String> {
    if exp == got {
        Ok(())
    } else if exp.len() != got.len() {
        Err(format!("bytes differ: wrote {} got {}", sb(exp), sb(got)))
    } else {
        let i = exp.iter().zip(got).position(|(a, b)| a != b).unwrap();
        Err(format!(
            "bytes differ at offset {} of {}: wrote {:#x} got {:#x}",
            i,
            exp.len(),
            exp[i],
            got[i]
        ))
    }
}

/// Does the text-protocol cell `got` decode to the value written?
pub fn text_match(cell: &Cell, got: Option<&[u8]>) -> Result<(), String> {
    if let Cell::Ref(inner) = cell {
        return text_match(&norm_ref(inner), got);
    }
    if let Cell::OrAnyTemporal(inner) = cell {
        // the real cell, or whatever text the out-of-domain date was rendered as
        return match (text_match(inner, got), got) {
            (Ok(()), _) => Ok(()),
            (Err(_), Some(g)) if !g.is_empty() && g.len() < 40 && g.iter().all(|b| b.is_ascii_digit() || b"+-: .".contains(b)) => Ok(()),
            (Err(e), _) => Err(e),
        };
    }
    let is_null = matches!(cell, Cell::Null(_) | Cell::Myc(MycV::Null));
    let g = match (is_null, got) {
        (true, None) => return Ok(()),
        (true, Some(g)) => return Err(format!("wrote NULL, client decodes {}", sb(g))),
        (false, None) => return Err("wrote a non-NULL value, client decodes NULL".into()),
        (false, Some(g)) => g,
    };
    if let Some(x) = int_of_cell(cell) {
        let s = std::str::from_utf8(g).map_err(|_| "integer text is not ASCII".to_string())?;
        let p: i128 = s
            .parse()
            .map_err(|_| format!("integer text {:?} does not parse", s))?;
        return if p == x {
            Ok(())
        } else {
            Err(format!("wrote integer {}, client decodes {}", x, p))
        };
    }
    match cell {
        Cell::F32(b) | Cell::Myc(MycV::Float(b)) => {
            let s = std::str::from_utf8(g).map_err(|_| "float text is not ASCII".to_string())?;
            let p: f32 = s.parse().map_err(|_| format!("float text {:?} does not parse", s))?;
            if p.to_bits() == *b {
                Ok(())
            } else {
                Err(format!(
                    "wrote f32 {:?}, client decodes {:?} from {:?}",
                    f32::from_bits(*b),
                    p,
                    s
                ))
            }
        }
        Cell::F64(b) | Cell::Myc(MycV::Double(b)) => {
            let s = std::str::from_utf8(g).map_err(|_| "float text is not ASCII".to_string())?;
            let p: f64 = s.parse().map_err(|_| format!("float text {:?} does not parse", s))?;
            if p.to_bits() == *b {
                Ok(())
            } else {
                Err(format!(
                    "wrote f64 {:?}, client decodes {:?} from {:?}",
                    f64::from_bits(*b),
                    p,
                    s
                ))
            }
        }
        Cell::Bytes(b) | Cell::VecBytes(b) | Cell::Str(b) | Cell::String(b) | Cell::Myc(MycV::Bytes(b)) => {
            bytes_eq(&b.to_vec(), g)
        }
        Cell::Date(y, m, d) => match parse_date(g) {
            Some(p) if p == (*y, *m, *d) => Ok(()),
            p => Err(format!("wrote date {}-{}-{}, client decodes {:?} from {}", y, m, d, p, sb(g))),
        },
        Cell::DateTime(y, mo, d, h, mi, s, us) => match parse_datetime(g) {
            Some(p) if p == (*y, *mo, *d, *h, *mi, *s, *us) => Ok(()),
            p => Err(format!(
                "wrote datetime {:?}, client decodes {:?} from {}",
                (y, mo, d, h, mi, s, us),
                p,
                sb(g)
            )),
        },
        Cell::Myc(MycV::Date(y, mo, d, h, mi, s, us)) => match parse_datetime(g) {
            Some(p)
                if p == (*y as i32, *mo as u32, *d as u32, *h as u32, *mi as u32, *s as u32, *us) =>
            {
                Ok(())
            }
            p => Err(format!(
                "wrote generic date {:?}, client decodes {:?} from {}",
                (y, mo, d, h, mi, s, us),
                p,
                sb(g)
            )),
        },
        Cell::Dur(secs, us) => {
            let exp = *secs as u128 * 1_000_000 + *us as u128;
            match parse_time(g) {
                Some((false, t)) if t == exp => Ok(()),
                p => Err(format!("wrote duration {}s+{}us, client decodes {:?} from {}", secs, us, p, sb(g))),
            }
        }
        Cell::Myc(MycV::Time(neg, d, h, m, s, us)) => {
            let exp = ((*d as u128 * 24 + *h as u128) * 3600 + *m as u128 * 60 + *s as u128) * 1_000_000
                + *us as u128;
            match parse_time(g) {
                Some((n, t)) if t == exp && n == *neg => Ok(()),
                p => Err(format!("wrote generic time, client decodes {:?} from {}", p, sb(g))),
            }
        }
        Cell::Some(inner) => text_match(inner, got),
        _ => Err("harness: unhandled cell kind".into()),
    }
}

fn norm_date(body: &[u8]) -> Option<(i32, u32, u32, u32, u32, u32, u32)> {
    match body.len() {
        0 => Some((0, 0, 0, 0, 0, 0, 0)),
        4 | 7 | 11 => {
            let y = u16::from_le_bytes([body[0], body[1]]) as i32;
            let (h, mi, s) = if body.len() >= 7 {
                (body[4] as u32, body[5] as u32, body[6] as u32)
            } else {
                (0, 0, 0)
            };
            let us = if body.len() == 11 {
                u32::from_le_bytes([body[7], body[8], body[9], body[10]])
            } else {
                0
            };
            Some((y, body[2] as u32, body[3] as u32, h, mi, s, us))
        }
        _ => None,
    }
}

fn norm_time(body: &[u8]) -> Option<(bool, u128)> {
    match body.len() {
        0 => Some((false, 0)),
        8 | 12 => {
            let neg = body[0] != 0;
            let days = u32::from_le_bytes([body[1], body[2], body[3], body[4]]) as u128;
            let us = if body.len() == 12 {
                u32::from_le_bytes([body[8], body[9], body[10], body[11]]) as u128
            } else {
                0
            };
            Some((
                neg,
                ((days * 24 + body[5] as u128) * 3600 + body[6] as u128 * 60 + body[7] as u128)
                    * 1_000_000
                    + us,
            ))
        }
        _ => None,
    }
}

/// Does the binary-protocol cell `got` (decoded with the advertised column) equal the value
/// written?
pub fn bin_match(cell: &Cell, col: &DecCol, got: &BinVal) -> Result<(), String> {
    if let Cell::Ref(inner) = cell {
        return bin_match(&norm_ref(inner), col, got);
    }
    if let Cell::OrAnyTemporal(inner) = cell {
        // the real cell, or any well-formed temporal value (the out-of-domain date, as encoded)
        return match (bin_match(inner, col, got), got) {
            (Ok(()), _) => Ok(()),
            (Err(_), BinVal::Date(b)) if matches!(b.len(), 0 | 4 | 7 | 11) => Ok(()),
            (Err(e), _) => Err(e),
        };
    }
    let is_null = matches!(cell, Cell::Null(_) | Cell::Myc(MycV::Null));
    if is_null {
        return if *got == BinVal::Null {
            Ok(())
        } else {
            Err(format!("wrote NULL, client decodes {:?}", got))
        };
    }
    if *got == BinVal::Null {
        return Err("wrote a non-NULL value, client decodes NULL".into());
    }
    if let Cell::Some(inner) = cell {
        return bin_match(inner, col, got);
    }
    if let Some(x) = int_of_cell(cell) {
        let g = match got {
            BinVal::Int(i) => *i as i128,
            BinVal::UInt(u) => *u as i128,
            o => return Err(format!("wrote integer {}, client decodes {:?} (column type {:#x})", x, o, col.coltype)),
        };
        return if g == x {
            Ok(())
        } else {
            Err(format!(
                "wrote integer {}, client decodes {} (column type {:#x} flags {:#x})",
                x, g, col.coltype, col.flags
            ))
        };
    }
    match (cell, got) {
        (Cell::F32(b), BinVal::F32(g)) | (Cell::Myc(MycV::Float(b)), BinVal::F32(g)) => {
            if b == g {
                Ok(())
            } else {
                Err(format!("wrote f32 bits {:#x}, client decodes {:#x}", b, g))
            }
        }
        (Cell::F32(b), BinVal::F64(g)) | (Cell::Myc(MycV::Float(b)), BinVal::F64(g)) => {
            let e = (f32::from_bits(*b) as f64).to_bits();
            if e == *g {
                Ok(())
            } else {
                Err(format!("wrote f32 {:?} to DOUBLE, client decodes {:?}", f32::from_bits(*b), f64::from_bits(*g)))
            }
        }
        (Cell::F64(b), BinVal::F64(g)) | (Cell::Myc(MycV::Double(b)), BinVal::F64(g)) => {
            if b == g {
                Ok(())
            } else {
                Err(format!("wrote f64 bits {:#x}, client decodes {:#x}", b, g))
            }
        }
        (
            Cell::Bytes(b) | Cell::VecBytes(b) | Cell::Str(b) | Cell::String(b) | Cell::Myc(MycV::Bytes(b)),
            BinVal::Bytes(g),
        ) => bytes_eq(&b.to_vec(), g),
        (Cell::Date(y, m, d), BinVal::Date(body)) if col.coltype == 0x0a => match norm_date(body) {
            Some(p) if p == (*y, *m, *d, 0, 0, 0, 0) => Ok(()),
            p => Err(format!("wrote date {:?}, client decodes {:?}", (y, m, d), p)),
        },
        (Cell::DateTime(y, mo, d, h, mi, s, us), BinVal::Date(body)) if col.coltype != 0x0a => {
            match norm_date(body) {
                Some(p) if p == (*y, *mo, *d, *h, *mi, *s, *us) => Ok(()),
                p => Err(format!(
                    "wrote datetime {:?}, client decodes {:?}",
                    (y, mo, d, h, mi, s, us),
                    p
                )),
            }
        }
        (Cell::Myc(MycV::Date(y, mo, d, h, mi, s, us)), BinVal::Date(body)) if col.coltype != 0x0a => {
            match norm_date(body) {
                Some(p)
                    if p == (*y as i32, *mo as u32, *d as u32, *h as u32, *mi as u32, *s as u32, *us) =>
                {
                    Ok(())
                }
                p => Err(format!("wrote generic date, client decodes {:?}", p)),
            }
        }
        (Cell::Dur(secs, us), BinVal::Time(body)) => {
            let exp = *secs as u128 * 1_000_000 + *us as u128;
            match norm_time(body) {
                Some((false, t)) if t == exp => Ok(()),
                p => Err(format!("wrote duration {}s+{}us, client decodes {:?}", secs, us, p)),
            }
        }
        (Cell::Myc(MycV::Time(neg, d, h, m, s, us)), BinVal::Time(body)) => {
            let exp = ((*d as u128 * 24 + *h as u128) * 3600 + *m as u128 * 60 + *s as u128) * 1_000_000
                + *us as u128;
            match norm_time(body) {
                Some((n, t)) if t == exp && n == *neg => Ok(()),
                p => Err(format!("wrote generic time, client decodes {:?}", p)),
            }
        }
        (c, g) => Err(format!(
            "value of kind {} was accepted for column type {:#x} and decodes as {:?}",
            cell_kind(c),
            col.coltype,
            g
        )),
    }
}

/// the value a `Ref` cell stands for (mirrors the shim's interpretation)
pub fn norm_ref(inner: &Cell) -> Cell {
    match inner {
        Cell::I64(_) | Cell::VecBytes(_) => inner.clone(),
        Cell::Some(x) if matches!(**x, Cell::I64(_)) => (**x).clone(),
        _ => Cell::Null(1),
    }
}

pub fn cell_kind(c: &Cell) -> &'static str {
    match c {
        Cell::Ref(_) => "&T",
        Cell::U8(_) => "u8",
        Cell::I8(_) => "i8",
        Cell::U16(_) => "u16",
        Cell::I16(_) => "i16",
        Cell::U32(_) => "u32",
        Cell::I32(_) => "i32",
        Cell::U64(_) => "u64",
        Cell::I64(_) => "i64",
        Cell::Usize(_) => "usize",
        Cell::Isize(_) => "isize",
        Cell::F32(_) => "f32",
        Cell::F64(_) => "f64",
        Cell::Bytes(_) => "&[u8]",
        Cell::VecBytes(_) => "Vec<u8>",
        Cell::Str(_) => "&str",
        Cell::String(_) => "String",
        Cell::Date(..) => "NaiveDate",
        Cell::DateTime(..) => "NaiveDateTime",
        Cell::Dur(..) => "Duration",
        Cell::Null(_) => "None",
        Cell::Some(_) => "Some",
        Cell::Myc(MycV::Null) => "Value::NULL",
        Cell::Myc(MycV::Bytes(_)) => "Value::Bytes",
        Cell::Myc(MycV::Int(_)) => "Value::Int",
        Cell::Myc(MycV::UInt(_)) => "Value::UInt",
        Cell::Myc(MycV::Float(_)) => "Value::Float",
        Cell::Myc(MycV::Double(_)) => "Value::Double",
        Cell::Myc(MycV::Date(..)) => "Value::Date",
        Cell::Myc(MycV::Time(..)) => "Value::Time",
        Cell::OrAnyTemporal(_) => "(real cell or out-of-domain date)",
    }
}

// ------------------------------------------------------------------------------------------
// replies

fn col_eq(exp: &ColSpec, got: &DecCol) -> Result<(), String> {
    let t = exp.table.to_vec();
    let n = exp.name.to_vec();
    if got.table != t {
        return Err(format!("table {} != declared {}", sb(&got.table), sb(&t)));
    }
    if got.name != n {
        return Err(format!("name {} != declared {}", sb(&got.name), sb(&n)));
    }
    if got.coltype != exp.coltype {
        return Err(format!("type {:#x} != declared {:#x}", got.coltype, exp.coltype));
    }
    if got.flags != exp.flags {
        return Err(format!("flags {:#x} != declared {:#x}", got.flags, exp.flags));
    }
    Ok(())
}

fn cols_eq(exp: &[ColSpec], got: &[DecCol], what: &str, unit: usize, vs: &mut Vec<Violation>) -> bool {
    if exp.len() != got.len() {
        vs.push(v(
            "coldef",
            format!("{} count", what),
            format!("unit {}: {} {} received, {} declared", unit, got.len(), what, exp.len()),
        ));
        return false;
    }
    for (i, (e, g)) in exp.iter().zip(got).enumerate() {
        if let Err(m) = col_eq(e, g) {
            vs.push(v(
                "coldef",
                format!("{} field", what),
                format!("unit {}: {} #{}: {}", unit, what, i, m),
            ));
            return false;
        }
    }
    true
}

fn err_eq(kind: u16, msg: &[u8], got: &DecErr, unit: usize, vs: &mut Vec<Violation>) {
    let k = crate::kinds::lookup(kind);
    if got.code != kind {
        vs.push(v(
            "err-packet",
            "code",
            format!("unit {}: ERR code {} received, shim reported {}", unit, got.code, kind),
        ));
        return;
    }
    if let Some((name, _, state_now, _)) = k {
        if &got.state != state_now {
            vs.push(v(
                "err-packet",
                "sqlstate",
                format!(
                    "unit {}: ERR state {} received, {}.sqlstate() is {}",
                    unit,
                    sb(&got.state),
                    name,
                    sb(state_now)
                ),
            ));
            return;
        }
    }
    if let Err(m) = bytes_eq(msg, &got.msg) {
        vs.push(v("err-packet", "message", format!("unit {}: ERR message: {}", unit, m)));
    }
}

fn ok_eq(aff: u64, id: u64, more: bool, got: &DecOk, unit: usize, ui: usize, vs: &mut Vec<Violation>) {
    if got.affected != aff || got.last_id != id {
        vs.push(v(
            "ok-counts",
            if got.affected != aff { "affected_rows" } else { "last_insert_id" },
            format!(
                "unit {} result #{}: OK carries ({}, {}), shim reported ({}, {})",
                unit, ui, got.affected, got.last_id, aff, id
            ),
        ));
    }
    let gm = got.status & dec::SERVER_MORE_RESULTS_EXISTS != 0;
    if gm != more {
        vs.push(v(
            "resp-more-flag",
            format!("ok more={} expected {}", gm, more),
            format!("unit {} result #{}: more-results flag is {}, expected {}", unit, ui, gm, more),
        ));
    }
}

fn units_eq(exp: &[ExpUnit], got: &[DecUnit], unit: usize, vs: &mut Vec<Violation>) {
    if exp.len() != got.len() {
        vs.push(v(
            "resp-shape",
            "number of results",
            format!(
                "unit {}: client decodes {} result(s), the shim produced {}: got {:?}",
                unit,
                got.len(),
                exp.len(),
                got.iter().map(du_kind).collect::<Vec<_>>()
            ),
        ));
        return;
    }
    for (ui, (e, g)) in exp.iter().zip(got).enumerate() {
        match (e, g) {
            (ExpUnit::Ok { affected, last_id, more }, DecUnit::Ok(o)) => {
                ok_eq(*affected, *last_id, *more, o, unit, ui, vs)
            }
            (ExpUnit::Err { kind, msg }, DecUnit::Err(er)) => err_eq(*kind, msg, er, unit, vs),
            (ExpUnit::Rows { cols, rows, term }, DecUnit::Rows { cols: gc, rows: gr, term: gt, .. }) => {
                if !cols_eq(cols, gc, "column", unit, vs) {
                    return;
                }
                if rows.len() != gr.len() {
                    vs.push(v(
                        "resp-shape",
                        "row count",
                        format!(
                            "unit {} result #{}: client decodes {} rows, shim wrote {}",
                            unit,
                            ui,
                            gr.len(),
                            rows.len()
                        ),
                    ));
                    return;
                }
                for (ri, (er, grow)) in rows.iter().zip(gr).enumerate() {
                    match grow {
                        DecRow::Text(cells) => {
                            if cells.len() != er.len() {
                                vs.push(v("resp-shape", "cell count", format!("unit {} row {}", unit, ri)));
                                return;
                            }
                            for (ci, (ec, gcell)) in er.iter().zip(cells).enumerate() {
                                if let Err(m) = text_match(ec, gcell.as_deref()) {
                                    vs.push(v(
                                        "text-value",
                                        cell_kind(ec),
                                        format!("unit {} result #{} row {} col {}: {}", unit, ui, ri, ci, m),
                                    ));
                                    return;
                                }
                            }
                        }
                        DecRow::Bin { cells, .. } => {
                            if cells.len() != er.len() {
                                vs.push(v("resp-shape", "cell count", format!("unit {} row {}", unit, ri)));
                                return;
                            }
                            for (ci, (ec, gcell)) in er.iter().zip(cells).enumerate() {
                                if let Err(m) = bin_match(ec, &gc[ci], gcell) {
                                    let nullish = matches!(ec, Cell::Null(_) | Cell::Myc(MycV::Null))
                                        || *gcell == BinVal::Null;
                                    vs.push(v(
                                        if nullish { "null-bitmap" } else { "bin-value" },
                                        format!("{} in {:#x}", cell_kind(ec), gc[ci].coltype),
                                        format!("unit {} result #{} row {} col {}: {}", unit, ui, ri, ci, m),
                                    ));
                                    return;
                                }
                            }
                        }
                    }
                }
                match (term, gt) {
                    (ExpTerm::Eof { more }, DecTerm::Eof { status, .. }) => {
                        let gm = status & dec::SERVER_MORE_RESULTS_EXISTS != 0;
                        if gm != *more {
                            vs.push(v(
                                "resp-more-flag",
                                format!("eof more={} expected {}", gm, more),
                                format!(
                                    "unit {} result #{}: more-results flag is {}, expected {}",
                                    unit, ui, gm, more
                                ),
                            ));
                        }
                    }
                    (ExpTerm::Err { kind, msg }, DecTerm::Err(er)) => err_eq(*kind, msg, er, unit, vs),
                    (e, g) => {
                        vs.push(v(
                            "resp-shape",
                            "terminator kind",
                            format!("unit {} result #{}: terminator {:?}, expected {:?}", unit, ui, g, e),
                        ));
                        return;
                    }
                }
            }
            (e, g) => {
                vs.push(v(
                    "resp-shape",
                    format!("{} instead of {}", du_kind(g), eu_kind(e)),
                    format!(
                        "unit {} result #{}: client decodes {}, shim produced {}",
                        unit,
                        ui,
                        du_kind(g),
                        eu_kind(e)
                    ),
                ));
                return;
            }
        }
    }
}

fn du_kind(d: &DecUnit) -> &'static str {
    match d {
        DecUnit::Rows { .. } => "resultset",
        DecUnit::Ok(_) => "OK",
        DecUnit::Err(_) => "ERR",
    }
}
fn eu_kind(d: &ExpUnit) -> &'static str {
    match d {
        ExpUnit::Rows { .. } => "resultset",
        ExpUnit::Ok { .. } => "OK",
        ExpUnit::Err { .. } => "ERR",
    }
}

pub fn o_replies(plan: &Plan, out: &Outcome, vs: &mut Vec<Violation>) {
    if out.model.hostile {
        return;
    }
    let faulted = out.w.fault_fired.is_some();
    let panicked = matches!(out.end, RunEnd::Panic { .. });
    let w = &out.w;
    // greeting
    match &w.greeting {
        Some(Ok(_)) => {}
        Some(Err(m)) => {
            vs.push(v("greeting", "malformed", format!("greeting: {}", m)));
            return;
        }
        None => {
            if !faulted && !panicked {
                vs.push(v("greeting", "missing", "no complete greeting was flushed"));
            }
            return;
        }
    }
    // handshake reply
    let auth_expected = out.model.auth.is_some();
    if auth_expected && !faulted && !panicked {
        match (&w.replies[0], plan.cfg.auth_reject) {
            (Some(Ok(d)), None) => match &d.resp {
                DecResp::Units(u) if u.len() == 1 && matches!(u[0], DecUnit::Ok(_)) => {}
                o => vs.push(v("auth-reply", "not OK", format!("accepted client receives {:?}", o))),
            },
            (None, None) => vs.push(v("auth-reply", "missing", "accepted client receives no OK")),
            (Some(Err(m)), None) => vs.push(v("auth-reply", "malformed", m.clone())),
            (_, Some(_)) => {
                // rejected: the handshake unit ends the connection, so gating did not decode it.
                // Decode it here from everything flushed.
                match dec::decode_reply(&w.sbytes[w.dec_pos..w.flushed], dec::Gr::Text) {
                    Ok((d, _)) => {
                        let exp = w.unit_last_seq[0].wrapping_add(1);
                        if d.seqs.first() != Some(&exp) {
                            vs.push(v(
                                "seq-ids",
                                "reply to a rejected handshake",
                                format!(
                                    "the ERR for a rejected handshake has sequence id {:?}, expected {} (handshake response had {})",
                                    d.seqs.first(),
                                    exp,
                                    w.unit_last_seq[0]
                                ),
                            ));
                        }
                        match &d.resp {
                        DecResp::Units(u) if u.len() == 1 => match &u[0] {
                            DecUnit::Err(e) if e.code == 1045 && &e.state == b"28000" => {}
                            o => vs.push(v(
                                "auth-reply",
                                "not ERR 1045/28000",
                                format!("rejected client receives {:?}", o),
                            )),
                        },
                        o => vs.push(v("auth-reply", "not ERR 1045/28000", format!("{:?}", o))),
                        }
                    }
                    Err(e) => vs.push(v(
                        "auth-reply",
                        "missing",
                        format!("rejected client receives no decodable ERR: {:?}", e),
                    )),
                }
            }
        }
    }
    for (i, m) in out.model.cmds.iter().enumerate() {
        let u = i + 1;
        if !m.live || m.ends.is_some() {
            break;
        }
        if m.grammar == Grammar::NoReply {
            continue;
        }
        if m.recover.is_some() && !recover_succeeded(out, m) {
            // the shim could not report the failure (finish_error refused): the error ends the
            // connection, nothing more is owed (and whatever part of the reply had already
            // left, e.g. through a TLS layer that flushes per record, is not judged)
            return;
        }
        let d = match &w.replies[u] {
            Some(Ok(d)) => d,
            Some(Err(msg)) => {
                vs.push(v(
                    "resp-malformed",
                    format!("{}: {}", unit_name(plan, u), erase_nums(msg)),
                    format!("unit {} ({}): client cannot decode the response: {}", u, unit_name(plan, u), msg),
                ));
                return;
            }
            None => {
                if !faulted && !panicked && u < w.released_units + 0 && !w.decode_stopped {
                    vs.push(v(
                        "resp-missing",
                        unit_name(plan, u),
                        format!("unit {} ({}): no complete response was flushed", u, unit_name(plan, u)),
                    ));
                }
                return;
            }
        };
        if let (Some(exp), DecResp::Units(got)) = (&m.recover, &d.resp) {
            units_eq(exp, got, u, vs);
            if !vs.is_empty() {
                return;
            }
            continue;
        }
        match (&m.reply, &d.resp) {
            (Reply::Unconstrained, _) | (Reply::None, _) => {}
            (Reply::Units(exp), DecResp::Units(got)) => units_eq(exp, got, u, vs),
            (Reply::OkOrErr, DecResp::Units(got)) => {
                if got.len() != 1 || matches!(got[0], DecUnit::Rows { .. }) {
                    vs.push(v(
                        "resp-shape",
                        "init reply",
                        format!("unit {}: expected one OK or ERR, got {:?}", u, got.iter().map(du_kind).collect::<Vec<_>>()),
                    ));
                }
            }
            (Reply::BuiltinResultset, DecResp::Units(got)) => {
                let ok = got.len() == 1
                    && matches!(&got[0], DecUnit::Rows { cols, rows, term: DecTerm::Eof { status, .. }, .. }
                        if cols.len() == 1 && rows.len() == 1 && status & dec::SERVER_MORE_RESULTS_EXISTS == 0);
                if !ok {
                    vs.push(v("resp-shape", "builtin resultset", format!("unit {}: {:?}", u, got)));
                }
            }
            (Reply::PrepareOk { id, params, cols }, DecResp::PrepareOk { id: gid, ncols, nparams, params: gp, cols: gc, .. }) => {
                if gid != id {
                    vs.push(v(
                        "coldef",
                        "statement id",
                        format!("unit {}: PREPARE_OK carries id {}, shim replied {}", u, gid, id),
                    ));
                }
                if *nparams as usize != params.len() || *ncols as usize != cols.len() {
                    vs.push(v(
                        "coldef",
                        "prepare counts",
                        format!(
                            "unit {}: PREPARE_OK announces {} params / {} columns, shim declared {} / {}",
                            u,
                            nparams,
                            ncols,
                            params.len(),
                            cols.len()
                        ),
                    ));
                }
                cols_eq(params, gp, "parameter", u, vs);
                cols_eq(cols, gc, "column", u, vs);
            }
            (Reply::FieldList, DecResp::FieldList(_)) => {}
            (Reply::FieldList, DecResp::Units(us)) if us.len() == 1 && matches!(us[0], DecUnit::Err(_)) => {}
            (e, g) => vs.push(v(
                "resp-shape",
                "response kind",
                format!("unit {}: expected {:?}, client decodes {:?}", u, reply_kind(e), g),
            )),
        }
        if !vs.is_empty() {
            // one root cause is enough; later replies are usually shifted
            return;
        }
    }
    // nothing may be left over
    if !faulted && !panicked && !w.decode_stopped && w.dec_pos != w.flushed {
        vs.push(v(
            "resp-extra-bytes",
            "after last response",
            format!(
                "{} flushed byte(s) after the last expected response",
                w.flushed - w.dec_pos
            ),
        ));
    }
}

/// did the shim's finish_error for this (recovering) command report success?
pub fn recover_succeeded(out: &Outcome, m: &CmdModel) -> bool {
    match m.act_index {
        Some(ai) => {
            let recs: Vec<_> = out.w.api.iter().filter(|a| a.act as usize == ai).collect();
            if recs.iter().any(|a| a.call == "finish_error") {
                recs.iter().any(|a| a.call == "finish_error" && a.ok)
            } else {
                // carry-on recovery: exactly the refused row failed, everything after it
                // (further rows, the closing call) reported success
                recs.iter().filter(|a| !a.ok).count() == 1
                    && !matches!(out.end, RunEnd::Panic { .. })
                    && out.w.act_next > ai
                    && matches!(recs.last(), Some(a) if a.ok && a.call != "write_row" && a.call != "start")
            }
        }
        None => false,
    }
}

fn reply_kind(r: &Reply) -> &'static str {
    match r {
        Reply::None => "no reply",
        Reply::Units(_) => "results",
        Reply::PrepareOk { .. } => "PREPARE_OK",
        Reply::BuiltinResultset => "builtin resultset",
        Reply::FieldList => "field list",
        Reply::Unconstrained => "anything",
        Reply::OkOrErr => "OK or ERR",
    }
}

pub fn erase_nums(s: &str) -> String {
    let mut m = String::new();
    let mut in_num = false;
    for ch in s.chars().take(100) {
        if ch.is_ascii_digit() {
            if !in_num {
                m.push('#');
            }
            in_num = true;
        } else {
            in_num = false;
            m.push(ch);
        }
    }
    m
}

// ------------------------------------------------------------------------------------------
// sequence ids, stalls, framing, api log

pub fn o_seq(plan: &Plan, out: &Outcome, vs: &mut Vec<Violation>) {
    if out.model.hostile {
        return;
    }
    let w = &out.w;
    if let Some(Ok(g)) = &w.greeting {
        if g.seq != 0 {
            vs.push(v("seq-ids", "greeting", format!("greeting has sequence id {}", g.seq)));
        }
    }
    for u in 0..w.replies.len() {
        if let Some(Ok(d)) = &w.replies[u] {
            let base = w.unit_last_seq[u];
            for (i, s) in d.seqs.iter().enumerate() {
                let exp = base.wrapping_add(1).wrapping_add(i as u8);
                if *s != exp {
                    vs.push(v(
                        "seq-ids",
                        if i == 0 { "first packet of response" } else { "later packet of response" },
                        format!(
                            "unit {} ({}): response packet #{} has sequence id {}, expected {} (request ended with {})",
                            u,
                            unit_name(plan, u),
                            i,
                            s,
                            exp,
                            base
                        ),
                    ));
                    return;
                }
            }
        }
    }
}

pub fn o_stall(plan: &Plan, out: &Outcome, vs: &mut Vec<Violation>) {
    for s in &out.w.stalls {
        vs.push(v(
            "stall",
            s.what.to_string(),
            format!("op {}: {} (unit {} = {})", s.op, s.what, s.unit, unit_name(plan, s.unit)),
        ));
    }
}

pub fn o_framing(out: &Outcome, vs: &mut Vec<Violation>) {
    // every flushed byte belongs to a well-formed packet
    let w = &out.w;
    let faulted = w.fault_fired.is_some();
    let bytes = &w.sbytes[..w.flushed];
    let mut pos = 0;
    while pos < bytes.len() {
        match dec::read_msg(bytes, pos) {
            Ok((m, np)) => {
                // a maximal packet must be followed by a continuation with the next id
                for i in 1..m.seqs.len() {
                    if m.seqs[i] != m.seqs[i - 1].wrapping_add(1) {
                        vs.push(v("framing", "continuation seq", format!("at byte {}", pos)));
                        return;
                    }
                }
                pos = np;
            }
            Err(_) => {
                if !faulted && !matches!(out.end, RunEnd::Panic { .. }) {
                    vs.push(v(
                        "framing",
                        "partial packet",
                        format!(
                            "flushed output ends inside a packet ({} byte(s) after offset {})",
                            bytes.len() - pos,
                            pos
                        ),
                    ));
                }
                return;
            }
        }
    }
    if !faulted && matches!(out.end, RunEnd::Ok) && w.sbytes.len() != w.flushed && w.tls.is_none() {
        vs.push(v(
            "framing",
            "unflushed bytes at clean end",
            format!("{} byte(s) written but never flushed", w.sbytes.len() - w.flushed),
        ));
    }
}

pub fn o_api(plan: &Plan, out: &Outcome, vs: &mut Vec<Violation>) {
    if out.w.fault_fired.is_some() || out.model.hostile {
        return;
    }
    for (i, m) in out.model.cmds.iter().enumerate() {
        if !m.live {
            break;
        }
        let Some(ai) = m.act_index else { continue };
        let recs: Vec<_> = out.w.api.iter().filter(|r| r.act as usize == ai).collect();
        if m.expect_api_err && m.ends.is_none() && m.recover.is_none() {
            // refused-and-retried value: that one call must fail, every other call must succeed
            let reached = out.w.act_next > ai && !matches!(out.end, RunEnd::Panic { .. });
            let failed = recs.iter().filter(|r| !r.ok).count();
            if reached && failed == 0 && recs.iter().any(|r| r.call == "start") {
                vs.push(v(
                    "contradiction-accepted",
                    "refused value retried",
                    format!("unit {}: a value the column / protocol cannot carry was accepted", i + 1),
                ));
            } else if failed > 1 {
                let bad = recs.iter().filter(|r| !r.ok).nth(1).unwrap();
                vs.push(v(
                    "api-call-failed",
                    format!("{} after a refused value", bad.call),
                    format!("unit {}: after one refused value, {}() failed too: {}", i + 1, bad.call, bad.detail),
                ));
            }
        } else if m.expect_api_err {
            // a panic before the contradicting call says nothing about the contradiction
            let reached = out.w.act_next > ai && !matches!(out.end, RunEnd::Panic { .. });
            if reached && !recs.iter().any(|r| !r.ok) {
                vs.push(v(
                    "contradiction-accepted",
                    contra_name(plan, i),
                    format!(
                        "unit {}: every writer call reported success although the row contradicts the declared shape",
                        i + 1
                    ),
                ));
            }
        } else if let Some(bad) = recs.iter().find(|r| !r.ok) {
            vs.push(v(
                "api-call-failed",
                bad.call.to_string(),
                format!("unit {}: {}() failed: {}", i + 1, bad.call, bad.detail),
            ));
        }
        if m.ends.is_some() {
            break;
        }
    }
}

fn contra_name(plan: &Plan, i: usize) -> String {
    if let Act::Program(p) = &plan.cmds[i].act {
        for u in &p.units {
            if let Unit::Rows(r) = u {
                if let Some(c) = &r.contra {
                    return match c {
                        Contra::TooFewCols { .. } => "too few cols",
                        Contra::TooManyCols { .. } => "too many cols",
                        Contra::NullIntoNotNull { .. } => "null into not null",
                        Contra::WrongKind { .. } => "wrong kind",
                        Contra::RefusedRetry { .. } => "refused value retried",
                        Contra::OfferedMaybe { .. } => "out-of-domain value offered",
                    }
                    .to_string();
                }
            }
        }
    }
    "?".into()
}

pub fn o_greeting(plan: &Plan, out: &Outcome, vs: &mut Vec<Violation>) {
    if let Some(Ok(g)) = &out.w.greeting {
        if g.protocol != 10 {
            vs.push(v("greeting", "protocol", format!("protocol version {}", g.protocol)));
        }
        if g.caps & CLIENT_PROTOCOL_41 == 0 {
            vs.push(v("greeting", "caps 4.1", "CLIENT_PROTOCOL_41 not advertised"));
        }
        let ssl = g.caps & CLIENT_SSL != 0;
        if ssl != plan.cfg.tls_offered {
            vs.push(v(
                "greeting",
                "caps ssl",
                format!("CLIENT_SSL advertised = {}, shim offers TLS = {}", ssl, plan.cfg.tls_offered),
            ));
        }
        if g.scramble1.len() != 8 {
            vs.push(v("greeting", "scramble", "auth-plugin-data-part-1 is not 8 bytes"));
        }
        if g.version.is_empty() {
            vs.push(v("greeting", "version", "empty server version"));
        }
        if g.seq != 0 {
            vs.push(v("greeting", "seq", format!("greeting sequence id {}", g.seq)));
        }
    }
}

/// second opinion: mysql_common's deserialisers must accept the same packets and agree with the
/// harness's decoder on every field (DESIGN 2.4)
pub fn o_myc(plan: &Plan, out: &Outcome, vs: &mut Vec<Violation>) {
    if out.model.hostile {
        return;
    }
    if let Some(Ok(g)) = &out.w.greeting {
        if let Err(e) = crate::myc2::check_greeting(g) {
            vs.push(v("decode-myc", "greeting", format!("greeting: {}", e)));
        }
    }
    for (u, r) in out.w.replies.iter().enumerate() {
        if let Some(Ok(d)) = r {
            if let Err(e) = crate::myc2::check_reply(d) {
                vs.push(v(
                    "decode-myc",
                    format!("{}: {}", unit_name(plan, u), erase_nums(&e)),
                    format!("unit {} ({}): second-opinion decoder: {}", u, unit_name(plan, u), e),
                ));
                return;
            }
        }
    }
}

/// A callback that bails out (returns its own error, or panics) while it still holds a writer:
/// the writers' destructors finish the response, so everything the shim had reported up to
/// that point must have been written to the transport (it need not have been flushed: run_on
/// is on its way out) -- the same reply as if the shim had dropped the writer there.
pub fn o_early_exit(plan: &Plan, out: &Outcome, vs: &mut Vec<Violation>) {
    let w = &out.w;
    if w.fault_fired.is_some() || out.model.hostile || w.tls.is_some() {
        return;
    }
    for (i, m) in out.model.cmds.iter().enumerate() {
        if !m.live {
            break;
        }
        let Some(EndOfConn::Token(_)) = &m.ends else {
            if m.ends.is_some() {
                break;
            }
            continue;
        };
        let Act::Program(p) = &plan.cmds[i].act else { break };
        let Some((at, _)) = p.ret_err else { break };
        if p.probe_cells || crate::model::program_has_contra(p) || crate::model::program_has_retry(p) {
            break;
        }
        // the callback must have been reached and every earlier reply decoded
        let u = i + 1;
        if w.answered != u || w.decode_stopped_on_error() {
            break;
        }
        let n = p.units.len();
        if at == 0 {
            // nothing was reported before the callback bailed out: nothing is owed
            break;
        }
        let exp = if at as usize > n {
            crate::model::program_units(p)
        } else {
            let mut p2 = p.clone();
            p2.units.truncate(at as usize);
            p2.end = End::DropWriter;
            p2.ret_err = None;
            if let Some(Unit::Rows(ru)) = p2.units.last_mut() {
                // the shim got past this unit, so it closed it with finish_one
                if ru.close != Close::FinishOne {
                    break;
                }
            }
            crate::model::program_units(&p2)
        };
        let gr = match m.grammar {
            Grammar::Text => dec::Gr::Text,
            Grammar::Binary => dec::Gr::Binary,
            _ => break,
        };
        let rest = &w.sbytes[w.dec_pos.min(w.sbytes.len())..];
        match dec::decode_reply(rest, gr) {
            Ok((d, used)) => {
                if let DecResp::Units(got) = &d.resp {
                    let before = vs.len();
                    units_eq(&exp, got, u, vs);
                    for v in vs[before..].iter_mut() {
                        v.rule = "early-exit-reply";
                    }
                    if vs.len() == before && used != rest.len() {
                        vs.push(v(
                            "early-exit-reply",
                            "extra bytes",
                            format!("unit {}: {} byte(s) written behind the reply of a callback that bailed out", u, rest.len() - used),
                        ));
                    }
                } else {
                    vs.push(v("early-exit-reply", "kind", format!("unit {}: unexpected reply kind", u)));
                }
            }
            Err(e) => vs.push(v(
                "early-exit-reply",
                "incomplete or malformed",
                format!(
                    "unit {} ({}): the callback bailed out after reporting {} result(s); what was written for them does not decode: {:?} ({} bytes written)",
                    u,
                    unit_name(plan, u),
                    exp.len(),
                    e,
                    rest.len()
                ),
            )),
        }
        break;
    }
}

pub fn all(plan: &Plan, out: &Outcome) -> Vec<Violation> {
    let mut vs = Vec::new();
    o_end(plan, out, &mut vs);
    o_early_exit(plan, out, &mut vs);
    o_callbacks(plan, out, &mut vs);
    o_stall(plan, out, &mut vs);
    o_replies(plan, out, &mut vs);
    o_seq(plan, out, &mut vs);
    o_framing(out, &mut vs);
    o_api(plan, out, &mut vs);
    o_greeting(plan, out, &mut vs);
    o_myc(plan, out, &mut vs);
    if matches!(out.end, RunEnd::Panic { .. }) && carried_on_after_refusal(plan, out) {
        // A shim that ignores a refused row and carries on is writing into a row writer whose
        // column cursor is out of step. The library may refuse what follows with an error or,
        // where its encoders assert the signedness of a column, with a panic (the refusal mode
        // C15 accepts as well): not a finding. What must not happen is that it succeeds with
        // a corrupted response, which the reply oracles judge when every later call succeeded.
        vs.retain(|v| v.rule != "panic" && v.rule != "end");
    }
    vs
}

/// some program of the plan skipped a refused row (carry-on recovery) and that refusal happened
fn carried_on_after_refusal(plan: &Plan, out: &Outcome) -> bool {
    out.model.cmds.iter().enumerate().any(|(i, m)| {
        let carry = matches!(&plan.cmds[i].act, Act::Program(p) if p.units.iter().any(|u| matches!(u, Unit::Rows(r) if matches!(&r.recover, Some((k, _)) if *k == crate::model::CARRY_ON))));
        carry
            && m.live
            && match m.act_index {
                Some(ai) => out.w.api.iter().any(|a| a.act as usize == ai && !a.ok),
                None => false,
            }
    })
}
