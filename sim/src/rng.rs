//! Small self-contained PRNG (splitmix64 seeding + xoshiro256**). No dependency on `rand` so
//! that the stream for a given VERIF_SEED never changes with a crate upgrade.

#[derive(Clone, Debug)]
pub struct Rng {
    s: [u64; 4],
}

pub fn splitmix(x: &mut u64) -> u64 {
    *x = x.wrapping_add(0x9E37_79B9_7F4A_7C15);
    let mut z = *x;
    z = (z ^ (z >> 30)).wrapping_mul(0xBF58_476D_1CE4_E5B9);
    z = (z ^ (z >> 27)).wrapping_mul(0x94D0_49BB_1331_11EB);
    z ^ (z >> 31)
}

/// Mix several integers into one seed (order-sensitive).
pub fn mix(parts: &[u64]) -> u64 {
    let mut h: u64 = 0x243F_6A88_85A3_08D3;
    for p in parts {
        let mut x = h ^ p.wrapping_mul(0x9E37_79B9_7F4A_7C15);
        h = splitmix(&mut x);
    }
    h
}

pub fn fnv(bytes: &[u8]) -> u64 {
    let mut h: u64 = 0xcbf2_9ce4_8422_2325;
    for b in bytes {
        h ^= *b as u64;
        h = h.wrapping_mul(0x100_0000_01b3);
    }
    h
}

impl Rng {
    pub fn new(seed: u64) -> Rng {
        let mut x = seed;
        let s = [
            splitmix(&mut x),
            splitmix(&mut x),
            splitmix(&mut x),
            splitmix(&mut x),
        ];
        Rng { s }
    }

    pub fn next(&mut self) -> u64 {
        let r = self.s[1].wrapping_mul(5).rotate_left(7).wrapping_mul(9);
        let t = self.s[1] << 17;
        self.s[2] ^= self.s[0];
        self.s[3] ^= self.s[1];
        self.s[1] ^= self.s[2];
        self.s[0] ^= self.s[3];
        self.s[2] ^= t;
        self.s[3] = self.s[3].rotate_left(45);
        r
    }

    /// uniform in 0..n (n > 0)
    pub fn below(&mut self, n: u64) -> u64 {
        debug_assert!(n > 0);
        // multiply-shift; bias is irrelevant here
        ((self.next() as u128 * n as u128) >> 64) as u64
    }

    pub fn usize_below(&mut self, n: usize) -> usize {
        self.below(n as u64) as usize
    }

    /// inclusive range
    pub fn range(&mut self, lo: u64, hi: u64) -> u64 {
        debug_assert!(lo <= hi);
        if lo == 0 && hi == u64::MAX {
            return self.next();
        }
        lo + self.below(hi - lo + 1)
    }

    pub fn irange(&mut self, lo: i64, hi: i64) -> i64 {
        let span = (hi as i128 - lo as i128) as u64;
        if span == u64::MAX {
            return self.next() as i64;
        }
        (lo as i128 + self.below(span + 1) as i128) as i64
    }

    pub fn chance(&mut self, num: u64, den: u64) -> bool {
        self.below(den) < num
    }

    pub fn coin(&mut self) -> bool {
        self.next() & 1 == 1
    }

    pub fn pick<'a, T>(&mut self, xs: &'a [T]) -> &'a T {
        &xs[self.usize_below(xs.len())]
    }

    /// index chosen by integer weights
    pub fn weighted(&mut self, weights: &[u32]) -> usize {
        let total: u64 = weights.iter().map(|w| *w as u64).sum();
        let mut r = self.below(total.max(1));
        for (i, w) in weights.iter().enumerate() {
            if r < *w as u64 {
                return i;
            }
            r -= *w as u64;
        }
        weights.len() - 1
    }

    pub fn bytes(&mut self, n: usize) -> Vec<u8> {
        let mut v = Vec::with_capacity(n);
        while v.len() < n {
            let x = self.next().to_le_bytes();
            let take = (n - v.len()).min(8);
            v.extend_from_slice(&x[..take]);
        }
        v
    }

    /// 0..n-1 random bytes
    pub fn bytes_below(&mut self, n: usize) -> Vec<u8> {
        let k = self.usize_below(n.max(1));
        self.bytes(k)
    }

    /// 1..n random bytes
    pub fn bytes_below1(&mut self, n: usize) -> Vec<u8> {
        let k = 1 + self.usize_below(n.max(1));
        self.bytes(k)
    }

    pub fn fork(&mut self) -> Rng {
        Rng::new(self.next())
    }
}
