//! Loopback differential for the one seam the simulator cannot replace: `run_on_tcp` takes a
//! concrete `std::net::TcpStream`. The same fault-free plaintext conversation is served once
//! through `run_on` over the simulated transport and once through `run_on_tcp` over a real
//! loopback socket pair; what the client receives (every byte, in order), how the run ends and
//! which callbacks the shim saw must be identical. The conversation always ends with COM_QUIT and
//! the client never closes first: the server has to hang up by itself.
//!
//! The compared observables are deterministic functions of the plan (TCP delivers the same byte
//! stream however it chunks it), so a verdict replays; what is real here is only the kernel's
//! scheduling of the two ends, which the properties say must not matter. Two client styles:
//! "polite" (waits for the greeting before sending) and "eager" (everything is already in the
//! socket when the server starts).

use crate::model;
use crate::plan::*;
use crate::shim::{ShimErr, SimShim};
use crate::sim::RunEnd;
use crate::stream::World;
use msql_srv::MysqlIntermediary;
use std::cell::RefCell;
use std::io::{Read, Write};
use std::net::{TcpListener, TcpStream};
use std::panic::{catch_unwind, AssertUnwindSafe};
use std::rc::Rc;
use std::time::Duration;

pub struct TcpRun {
    pub bytes: Vec<u8>,
    pub end: &'static str,
    pub callbacks: Vec<String>,
    /// the client gave up waiting for the server to close the connection
    pub client_timed_out: bool,
}

/// the one fault the differential can reproduce over a real socket: the client stops sending
/// after byte k of its script and half-closes (FIN); it keeps reading until the server hangs up
pub fn halfclose_cut(plan: &Plan) -> Option<usize> {
    match plan.faults.as_slice() {
        [Fault {
            at: FaultAt::ClientByte(k),
            kind: FaultKind::Eof,
            persistent: true,
        }] => Some(*k as usize),
        _ => None,
    }
}

/// plans the differential applies to: plaintext, fault-free (or ended by a half-close),
/// well-formed, moderate in size
pub fn eligible(plan: &Plan) -> bool {
    plan.cfg.tls.is_none()
        && !plan.cfg.tls_offered
        && (plan.faults.is_empty() || halfclose_cut(plan).is_some())
        && !plan.is_hostile()
        && !plan.cfg.default_on_init
        && plan.cmds.len() <= 40
}

/// the plan as run by the differential: ends with QUIT, everything sent up front, no chunking
pub fn normalise(plan: &Plan) -> Plan {
    let mut p = plan.clone();
    if let Some(i) = p.cmds.iter().position(|c| matches!(c.kind, CmdKind::Quit)) {
        p.cmds.truncate(i + 1);
    } else {
        p.cmds.push(Cmd {
            seq: 0,
            kind: CmdKind::Quit,
            act: Act::None,
        });
    }
    // nothing may be left unread when the server hangs up (a close with unread input makes the
    // kernel reset the connection, and a reset may overtake the last reply on its way to the
    // client): cut the conversation where the model says it ends
    let m = model::build(&p);
    if m.auth.is_none() || p.cfg.auth_reject.is_some() {
        p.cmds.clear();
    } else if let Some(k) = m.cmds.iter().position(|c| c.ends.is_some()) {
        p.cmds.truncate(k + 1);
    }
    p.reads = ReadSched::all();
    p.arrival = Arrival::upfront();
    p.writes = WriteSched::all();
    p.cfg.tcp_diff = true;
    p
}

/// rule `tcp-differs`: compare the loopback runs with the simulated one (`out` is the simulated
/// run of this very plan)
pub fn judge(plan: &Plan, out: &crate::sim::Outcome) -> Vec<(String, String)> {
    let mut vs = Vec::new();
    if !plan.cfg.tcp_diff || !eligible(plan) || matches!(out.end, RunEnd::Panic { .. }) {
        return vs;
    }
    let want_cbs: Vec<String> = out.w.callbacks.iter().map(|(_, c)| c.short()).collect();
    if let Some(k) = halfclose_cut(plan) {
        // what the client receives is not compared here: a server that gives up with input still
        // unread makes the kernel reset the connection, and a reset may overtake its last bytes
        if let Ok(t) = run_tcp_cut(plan, true, Some(k)) {
            if t.client_timed_out {
                vs.push((
                    "half-closing client: server did not hang up".to_string(),
                    format!("client sent {} bytes and half-closed; 20 s later the server had neither closed the connection nor sent more (run_on_tcp returned {})", k, t.end),
                ));
            } else if t.end != out.end.class() {
                vs.push((
                    "half-closing client: result of run_on_tcp".to_string(),
                    format!("client sent {} bytes and half-closed: run_on_tcp ended with {}, run_on (end of stream at that byte) with {}", k, t.end, out.end.class()),
                ));
            } else if t.callbacks != want_cbs {
                vs.push((
                    "half-closing client: callbacks".to_string(),
                    format!("client sent {} bytes and half-closed: callbacks over loopback {:?}, simulated {:?}", k, t.callbacks, want_cbs),
                ));
            }
        }
        return vs;
    }
    for eager in [false, true] {
        let style = if eager { "eager client" } else { "polite client" };
        match run_tcp(plan, eager) {
            Err(_) => {
                // too large for the differential, or the OS had no socket / port to spare right
                // now: nothing was compared, nothing is claimed
                return vs;
            }
            Ok(t) => {
                if t.client_timed_out {
                    vs.push((
                        format!("{}: server did not hang up", style),
                        format!("{}: 20 s after the last byte the server had neither closed the connection nor sent more (run_on_tcp returned {})", style, t.end),
                    ));
                } else if t.bytes != out.w.sbytes {
                    let common = t.bytes.iter().zip(&out.w.sbytes).take_while(|(a, b)| a == b).count();
                    vs.push((
                        format!("{}: bytes received", style),
                        format!(
                            "{}: over loopback the client received {} bytes, over the simulated transport the server wrote {}; first difference at offset {}",
                            style,
                            t.bytes.len(),
                            out.w.sbytes.len(),
                            common
                        ),
                    ));
                } else if t.end != out.end.class() {
                    vs.push((
                        format!("{}: result of run_on_tcp", style),
                        format!("{}: run_on_tcp ended with {}, run_on with {}", style, t.end, out.end.class()),
                    ));
                } else if t.callbacks != want_cbs {
                    vs.push((
                        format!("{}: callbacks", style),
                        format!("{}: callbacks over loopback {:?}, simulated {:?}", style, t.callbacks, want_cbs),
                    ));
                }
            }
        }
        if !vs.is_empty() {
            break;
        }
    }
    vs
}

pub fn run_tcp(plan: &Plan, eager: bool) -> Result<TcpRun, String> {
    run_tcp_cut(plan, eager, None)
}

/// `cut`: the client sends only the first `cut` bytes of its script, then shuts down its sending
/// direction (and goes on reading)
pub fn run_tcp_cut(plan: &Plan, eager: bool, cut: Option<usize>) -> Result<TcpRun, String> {
    let m = model::build(plan);
    let world = World::new(plan, &m);
    let mut cbytes = world.cbytes.clone();
    if let Some(k) = cut {
        cbytes.truncate(k);
    }
    let half_close = cut.is_some();
    if cbytes.len() > 2_000_000 {
        return Err("too large".into());
    }
    let world = Rc::new(RefCell::new(world));
    let listener = TcpListener::bind("127.0.0.1:0").map_err(|e| format!("bind: {}", e))?;
    let addr = listener.local_addr().map_err(|e| format!("addr: {}", e))?;
    let (ready_tx, ready_rx) = std::sync::mpsc::channel::<()>();
    let client = std::thread::spawn(move || -> (Vec<u8>, bool) {
        let mut got = Vec::new();
        let mut timed_out = false;
        let Ok(mut s) = TcpStream::connect(addr) else {
            // no socket to spare: the server side gives up on accept, nothing is compared
            let _ = ready_tx.send(());
            return (got, false);
        };
        let _ = s.set_read_timeout(Some(Duration::from_secs(20)));
        let _ = s.set_write_timeout(Some(Duration::from_secs(20)));
        let _ = s.set_nodelay(true);
        let mut buf = [0u8; 65_536];
        if eager {
            // the whole conversation is in the socket before the server even accepts
            let _ = s.write_all(&cbytes);
            if half_close {
                let _ = s.shutdown(std::net::Shutdown::Write);
            }
            let _ = ready_tx.send(());
        } else {
            let _ = ready_tx.send(());
            // wait for (the beginning of) the greeting
            match s.read(&mut buf) {
                Ok(0) => return (got, false),
                Ok(n) => got.extend_from_slice(&buf[..n]),
                Err(_) => return (got, true),
            }
            let _ = s.write_all(&cbytes);
            if half_close {
                let _ = s.shutdown(std::net::Shutdown::Write);
            }
        }
        // never close first: the conversation ends with QUIT (or with an error on the server's
        // side), the server hangs up
        loop {
            match s.read(&mut buf) {
                Ok(0) => break,
                Ok(n) => got.extend_from_slice(&buf[..n]),
                Err(e) if matches!(e.kind(), std::io::ErrorKind::WouldBlock | std::io::ErrorKind::TimedOut) => {
                    timed_out = true;
                    break;
                }
                Err(_) => break, // reset by the server after it hung up with unread input
            }
        }
        (got, timed_out)
    });
    let _ = ready_rx.recv_timeout(Duration::from_secs(20));
    // never block for ever in accept (the client may have failed to connect)
    listener.set_nonblocking(true).map_err(|e| format!("nonblocking: {}", e))?;
    let t0 = std::time::Instant::now();
    let stream = loop {
        match listener.accept() {
            Ok((s, _)) => break s,
            Err(e) if e.kind() == std::io::ErrorKind::WouldBlock => {
                if t0.elapsed().as_secs() > 20 {
                    let _ = client.join();
                    return Err("accept timed out".into());
                }
                std::thread::sleep(Duration::from_millis(1));
            }
            Err(e) => {
                let _ = client.join();
                return Err(format!("accept: {}", e));
            }
        }
    };
    stream.set_nonblocking(false).map_err(|e| format!("blocking: {}", e))?;
    let _ = stream.set_nodelay(true);
    crate::panichook::clear();
    let w2 = world.clone();
    let res = catch_unwind(AssertUnwindSafe(move || {
        MysqlIntermediary::run_on_tcp(SimShim::<false> { w: w2, tls: None }, stream)
    }));
    let end = match res {
        Ok(Ok(())) => RunEnd::Ok.class(),
        Ok(Err(ShimErr::Io(_))) => "ioerr",
        Ok(Err(ShimErr::Token(_))) => "token",
        Err(_) if world.borrow().app_panic.is_some() => "token",
        Err(_) => "panic",
    };
    let (bytes, client_timed_out) = client.join().map_err(|_| "client thread panicked".to_string())?;
    let w = world.borrow();
    Ok(TcpRun {
        bytes,
        end,
        callbacks: w.callbacks.iter().map(|(_, c)| c.short()).collect(),
        client_timed_out,
    })
}
