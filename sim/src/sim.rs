//! simulate(plan): run the real `MysqlIntermediary::run_on` against the simulated world.

use crate::model::{self, Model};
use crate::panichook;
use crate::plan::Plan;
use crate::shim::{ShimErr, SimShim};
use crate::stream::{SimStream, World};
use msql_srv::MysqlIntermediary;
use std::cell::RefCell;
use std::panic::{catch_unwind, AssertUnwindSafe};
use std::rc::Rc;

#[derive(Clone, Debug, PartialEq)]
pub enum RunEnd {
    Ok,
    IoErr { kind: String, msg: String },
    Token(u32),
    Panic { loc: String, msg: String },
}

impl RunEnd {
    pub fn class(&self) -> &'static str {
        match self {
            RunEnd::Ok => "ok",
            RunEnd::IoErr { .. } => "ioerr",
            RunEnd::Token(_) => "token",
            RunEnd::Panic { .. } => "panic",
        }
    }
}

pub struct Outcome {
    pub end: RunEnd,
    pub w: World,
    pub model: Model,
}

pub struct SimOpts {
    pub log_events: bool,
}

impl Default for SimOpts {
    fn default() -> Self {
        SimOpts { log_events: true }
    }
}

pub fn simulate(plan: &Plan) -> Outcome {
    simulate_with(plan, &SimOpts::default())
}

pub fn simulate_with(plan: &Plan, opts: &SimOpts) -> Outcome {
    let model = model::build(plan);
    // all TLS randomness of this run (client and server side) comes from the Plan's seed
    if let Some(t) = &plan.cfg.tls {
        crate::tlssim::seed_thread_rng(t.seed);
    } else {
        crate::tlssim::seed_thread_rng(0);
    }
    let mut world = World::new(plan, &model);
    world.log_events = opts.log_events;
    let world = Rc::new(RefCell::new(world));
    let tls_cfg = if plan.cfg.tls_offered {
        Some(crate::tlssim::server_config(plan.cfg.tls_require_cert))
    } else {
        None
    };
    panichook::clear();
    let stream = SimStream { w: world.clone() };
    let default_init = plan.cfg.default_on_init;
    let w2 = world.clone();
    let res = catch_unwind(AssertUnwindSafe(move || {
        if default_init {
            MysqlIntermediary::run_on(
                SimShim::<true> {
                    w: w2,
                    tls: tls_cfg,
                },
                stream,
            )
        } else {
            MysqlIntermediary::run_on(
                SimShim::<false> {
                    w: w2,
                    tls: tls_cfg,
                },
                stream,
            )
        }
    }));
    let end = match res {
        Ok(Ok(())) => RunEnd::Ok,
        Ok(Err(ShimErr::Io(e))) => RunEnd::IoErr {
            kind: format!("{:?}", e.kind()),
            msg: e.to_string(),
        },
        Ok(Err(ShimErr::Token(t))) => RunEnd::Token(t),
        Err(_) if world.borrow().app_panic.is_some() => {
            // the application's own panic, unwound through run_on: for the oracles it is the
            // callback failing with that token
            let _ = panichook::take_last_pair();
            RunEnd::Token(world.borrow().app_panic.unwrap_or(0))
        }
        Err(_) => {
            let (loc, msg) = panichook::take_last_pair().unwrap_or_default();
            if !loc.starts_with('/') || msg.starts_with("harness:") {
                // a panic raised by the harness itself is never a finding
                eprintln!("HARNESS-ERROR: harness code panicked at {}: {}", loc, msg);
                eprintln!("plan: {}", serde_json::to_string(plan).unwrap_or_default());
                std::process::exit(2);
            }
            RunEnd::Panic { loc, msg }
        }
    };
    let mut w = match Rc::try_unwrap(world) {
        Ok(c) => c.into_inner(),
        Err(_) => panic!("harness: world still shared after run_on returned"),
    };
    crate::tlssim::finish(&mut w);
    w.client_decode();
    Outcome { end, w, model }
}
