//! TLS layer of the simulated client (stub; filled in for C18)
use crate::plan::TlsClient;
use crate::stream::World;
use std::io;

pub struct TlsSide {
    pub outer: Vec<u8>,
}

impl TlsSide {
    pub fn new(_t: &TlsClient, outer: Vec<u8>) -> TlsSide {
        TlsSide { outer }
    }
}

pub fn read_tls(_w: &mut World, _op: u64, _ridx: u64, _buf: &mut [u8]) -> io::Result<usize> {
    Ok(0)
}

pub fn server_config(_require_cert: bool) -> std::sync::Arc<rustls::ServerConfig> {
    unimplemented!()
}

pub fn seed_thread_rng(_seed: u64) {}
pub fn finish(_w: &mut World) {}
