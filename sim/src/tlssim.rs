//! Deterministic TLS: a rustls CryptoProvider whose randomness and X25519 key shares come from a
//! seeded thread-local stream, fixed Ed25519 certificates, clock-free certificate verifiers, and
//! the client side of the upgrade (a real rustls ClientConnection driven in memory, so the
//! simulator still decides every chunk boundary of the TLS byte stream).

use crate::plan::TlsClient;
use crate::rng::Rng;
use crate::stream::{Ev, World};
use crate::tlsfix;
use rustls::client::danger::{HandshakeSignatureValid, ServerCertVerified, ServerCertVerifier};
use rustls::crypto::{
    ActiveKeyExchange, CryptoProvider, GetRandomFailed, SecureRandom, SharedSecret, SupportedKxGroup,
};
use rustls::pki_types::{CertificateDer, PrivateKeyDer, PrivatePkcs8KeyDer, ServerName, UnixTime};
use rustls::server::danger::{ClientCertVerified, ClientCertVerifier};
use rustls::{DigitallySignedStruct, DistinguishedName, NamedGroup, SignatureScheme};
use std::cell::RefCell;
use std::io::{self, Read, Write};
use std::sync::Arc;

thread_local! {
    static TLS_RNG: RefCell<Rng> = RefCell::new(Rng::new(0));
    static CFG_CACHE: RefCell<Vec<(u8, Arc<rustls::ServerConfig>)>> = const { RefCell::new(Vec::new()) };
    static CCFG_CACHE: RefCell<Vec<(u8, Arc<rustls::ClientConfig>)>> = const { RefCell::new(Vec::new()) };
}

pub fn seed_thread_rng(seed: u64) {
    TLS_RNG.with(|r| *r.borrow_mut() = Rng::new(seed ^ 0x7157_7157_7157_7157));
}

fn fill_seeded(buf: &mut [u8]) {
    TLS_RNG.with(|r| {
        let mut r = r.borrow_mut();
        let b = r.bytes(buf.len());
        buf.copy_from_slice(&b);
    });
}

#[derive(Debug)]
struct SeededRandom;

impl SecureRandom for SeededRandom {
    fn fill(&self, buf: &mut [u8]) -> Result<(), GetRandomFailed> {
        fill_seeded(buf);
        Ok(())
    }
}

#[derive(Debug)]
struct SeededX25519;

struct SeededKx {
    priv_key: ring::agreement::EphemeralPrivateKey,
    pub_key: Vec<u8>,
}

impl SupportedKxGroup for SeededX25519 {
    fn start(&self) -> Result<Box<dyn ActiveKeyExchange>, rustls::Error> {
        let mut seed = [0u8; 32];
        fill_seeded(&mut seed);
        let rng = ring::test::rand::FixedSliceRandom { bytes: &seed };
        let priv_key = ring::agreement::EphemeralPrivateKey::generate(&ring::agreement::X25519, &rng)
            .map_err(|_| rustls::Error::General("x25519 keygen".into()))?;
        let pub_key = priv_key
            .compute_public_key()
            .map_err(|_| rustls::Error::General("x25519 pubkey".into()))?
            .as_ref()
            .to_vec();
        Ok(Box::new(SeededKx { priv_key, pub_key }))
    }
    fn name(&self) -> NamedGroup {
        NamedGroup::X25519
    }
}

impl ActiveKeyExchange for SeededKx {
    fn complete(self: Box<Self>, peer: &[u8]) -> Result<SharedSecret, rustls::Error> {
        let peer = ring::agreement::UnparsedPublicKey::new(&ring::agreement::X25519, peer);
        ring::agreement::agree_ephemeral(self.priv_key, &peer, |secret| SharedSecret::from(secret))
            .map_err(|_| rustls::Error::General("x25519 agree".into()))
    }
    fn pub_key(&self) -> &[u8] {
        &self.pub_key
    }
    fn group(&self) -> NamedGroup {
        NamedGroup::X25519
    }
}

static SEEDED_RANDOM: SeededRandom = SeededRandom;
static SEEDED_X25519: SeededX25519 = SeededX25519;

fn provider() -> Arc<CryptoProvider> {
    let base = rustls::crypto::ring::default_provider();
    Arc::new(CryptoProvider {
        cipher_suites: base.cipher_suites,
        kx_groups: vec![&SEEDED_X25519],
        signature_verification_algorithms: base.signature_verification_algorithms,
        secure_random: &SEEDED_RANDOM,
        key_provider: base.key_provider,
    })
}

/// Accepts exactly the fixture certificate, verifies handshake signatures, never reads a clock.
#[derive(Debug)]
struct FixtureVerifier {
    cert: Vec<u8>,
    algs: rustls::crypto::WebPkiSupportedAlgorithms,
}

impl ServerCertVerifier for FixtureVerifier {
    fn verify_server_cert(
        &self,
        end_entity: &CertificateDer<'_>,
        _intermediates: &[CertificateDer<'_>],
        _server_name: &ServerName<'_>,
        _ocsp: &[u8],
        _now: UnixTime,
    ) -> Result<ServerCertVerified, rustls::Error> {
        if end_entity.as_ref() == &self.cert[..] {
            Ok(ServerCertVerified::assertion())
        } else {
            Err(rustls::Error::General("unexpected server certificate".into()))
        }
    }
    fn verify_tls12_signature(
        &self,
        message: &[u8],
        cert: &CertificateDer<'_>,
        dss: &DigitallySignedStruct,
    ) -> Result<HandshakeSignatureValid, rustls::Error> {
        rustls::crypto::verify_tls12_signature(message, cert, dss, &self.algs)
    }
    fn verify_tls13_signature(
        &self,
        message: &[u8],
        cert: &CertificateDer<'_>,
        dss: &DigitallySignedStruct,
    ) -> Result<HandshakeSignatureValid, rustls::Error> {
        rustls::crypto::verify_tls13_signature(message, cert, dss, &self.algs)
    }
    fn supported_verify_schemes(&self) -> Vec<SignatureScheme> {
        self.algs.supported_schemes()
    }
}

impl ClientCertVerifier for FixtureVerifier {
    fn offer_client_auth(&self) -> bool {
        true
    }
    fn client_auth_mandatory(&self) -> bool {
        false
    }
    fn root_hint_subjects(&self) -> &[DistinguishedName] {
        &[]
    }
    fn verify_client_cert(
        &self,
        end_entity: &CertificateDer<'_>,
        _intermediates: &[CertificateDer<'_>],
        _now: UnixTime,
    ) -> Result<ClientCertVerified, rustls::Error> {
        if end_entity.as_ref() == &self.cert[..] {
            Ok(ClientCertVerified::assertion())
        } else {
            Err(rustls::Error::General("unexpected client certificate".into()))
        }
    }
    fn verify_tls12_signature(
        &self,
        message: &[u8],
        cert: &CertificateDer<'_>,
        dss: &DigitallySignedStruct,
    ) -> Result<HandshakeSignatureValid, rustls::Error> {
        rustls::crypto::verify_tls12_signature(message, cert, dss, &self.algs)
    }
    fn verify_tls13_signature(
        &self,
        message: &[u8],
        cert: &CertificateDer<'_>,
        dss: &DigitallySignedStruct,
    ) -> Result<HandshakeSignatureValid, rustls::Error> {
        rustls::crypto::verify_tls13_signature(message, cert, dss, &self.algs)
    }
    fn supported_verify_schemes(&self) -> Vec<SignatureScheme> {
        self.algs.supported_schemes()
    }
}

pub fn server_config(require_cert: bool) -> Arc<rustls::ServerConfig> {
    let key = require_cert as u8;
    if let Some(c) = CFG_CACHE.with(|c| c.borrow().iter().find(|e| e.0 == key).map(|e| e.1.clone())) {
        return c;
    }
    let prov = provider();
    let algs = prov.signature_verification_algorithms;
    let b = rustls::ServerConfig::builder_with_provider(prov)
        .with_safe_default_protocol_versions()
        .expect("harness: protocol versions");
    let b = if require_cert {
        b.with_client_cert_verifier(Arc::new(FixtureVerifier {
            cert: tlsfix::client_cert().to_vec(),
            algs,
        }))
    } else {
        b.with_no_client_auth()
    };
    let mut cfg = b
        .with_single_cert(
            vec![CertificateDer::from(tlsfix::server_cert().to_vec())],
            PrivateKeyDer::Pkcs8(PrivatePkcs8KeyDer::from(tlsfix::server_key().to_vec())),
        )
        .expect("harness: server certificate");
    // no cross-connection state, no tickets: one run must not influence the next
    cfg.session_storage = Arc::new(rustls::server::NoServerSessionStorage {});
    cfg.send_tls13_tickets = 0;
    let cfg = Arc::new(cfg);
    CFG_CACHE.with(|c| c.borrow_mut().push((key, cfg.clone())));
    cfg
}

fn client_config(t: &TlsClient) -> Arc<rustls::ClientConfig> {
    let key = (t.cert as u8) | (t.v13 as u8) << 1 | (if t.cert { t.chain.min(3) } else { 0 }) << 2 | (t.big_hello as u8) << 4;
    if let Some(c) = CCFG_CACHE.with(|c| c.borrow().iter().find(|e| e.0 == key).map(|e| e.1.clone())) {
        return c;
    }
    let prov = provider();
    let algs = prov.signature_verification_algorithms;
    let versions: &[&rustls::SupportedProtocolVersion] = if t.v13 {
        &[&rustls::version::TLS13]
    } else {
        &[&rustls::version::TLS12]
    };
    let b = rustls::ClientConfig::builder_with_provider(prov)
        .with_protocol_versions(versions)
        .expect("harness: client protocol versions")
        .dangerous()
        .with_custom_certificate_verifier(Arc::new(FixtureVerifier {
            cert: tlsfix::server_cert().to_vec(),
            algs,
        }));
    let mut cfg = if t.cert {
        b.with_client_auth_cert(
            t.presented_chain().into_iter().map(CertificateDer::from).collect(),
            PrivateKeyDer::Pkcs8(PrivatePkcs8KeyDer::from(tlsfix::client_key().to_vec())),
        )
        .expect("harness: client certificate")
    } else {
        b.with_no_client_auth()
    };
    cfg.resumption = rustls::client::Resumption::disabled();
    if t.big_hello {
        cfg.alpn_protocols = (0..24u8).map(|i| vec![b'a' + i; 200]).collect();
    }
    let cfg = Arc::new(cfg);
    CCFG_CACHE.with(|c| c.borrow_mut().push((key, cfg.clone())));
    cfg
}

pub struct TlsSide {
    conn: rustls::ClientConnection,
    /// outer client stream produced so far: SSLRequest packet, then TLS records
    pub out: Vec<u8>,
    pub out_delivered: usize,
    /// bytes of the server's wire output already shown to the client
    fed: usize,
    /// length of the plaintext greeting packet at the start of the server's wire output
    greet_len: Option<usize>,
    /// plaintext client bytes already handed to the TLS client
    inner_written: usize,
    pub error: Option<String>,
    pub ssl_req_len: usize,
    pub client_hello_len: usize,
    pub handshake_done: bool,
    pub closed: bool,
}

impl TlsSide {
    pub fn new(t: &TlsClient, outer: Vec<u8>) -> TlsSide {
        let conn = rustls::ClientConnection::new(
            client_config(t),
            ServerName::try_from("localhost").expect("harness: server name"),
        )
        .expect("harness: client connection");
        let mut conn = conn;
        // the scripted client hands over whole commands; never drop plaintext
        conn.set_buffer_limit(None);
        let ssl_req_len = outer.len();
        let mut s = TlsSide {
            conn,
            out: outer,
            out_delivered: 0,
            fed: 0,
            greet_len: None,
            inner_written: 0,
            error: None,
            ssl_req_len,
            client_hello_len: 0,
            handshake_done: false,
            closed: false,
        };
        s.pump_out();
        s.client_hello_len = s.out.len() - ssl_req_len;
        s
    }

    fn pump_out(&mut self) {
        while self.conn.wants_write() {
            if self.conn.write_tls(&mut self.out).is_err() {
                break;
            }
        }
    }
}

/// Show the client what the server has flushed so far: plaintext greeting first, TLS afterwards.
fn feed(w: &mut World) {
    let Some(mut t) = w.tls.take() else { return };
    let avail = w.wire_flushed;
    if t.greet_len.is_none() && avail >= 4 {
        let n = w.wire_s[0] as usize | (w.wire_s[1] as usize) << 8 | (w.wire_s[2] as usize) << 16;
        if avail >= 4 + n {
            t.greet_len = Some(4 + n);
            w.sbytes.extend_from_slice(&w.wire_s[..4 + n]);
            t.fed = 4 + n;
        }
    }
    if t.greet_len.is_some() && t.fed < avail && t.error.is_none() {
        let mut src: &[u8] = &w.wire_s[t.fed..avail];
        while !src.is_empty() {
            match t.conn.read_tls(&mut src) {
                Ok(0) => break,
                Ok(_) => {}
                Err(e) => {
                    t.error = Some(format!("read_tls: {}", e));
                    break;
                }
            }
            match t.conn.process_new_packets() {
                Ok(_) => {}
                Err(e) => {
                    t.error = Some(format!("TLS client rejects the server's bytes: {}", e));
                    break;
                }
            }
            // decrypted application data = the server's plaintext protocol stream
            let mut buf = [0u8; 16_384];
            loop {
                match t.conn.reader().read(&mut buf) {
                    Ok(0) => break,
                    Ok(n) => w.sbytes.extend_from_slice(&buf[..n]),
                    Err(_) => break,
                }
            }
        }
        t.fed = avail;
        if !t.conn.is_handshaking() {
            t.handshake_done = true;
        }
    }
    w.flushed = w.sbytes.len();
    t.pump_out();
    w.tls = Some(t);
}

fn clean_close_at(w: &World) -> Option<usize> {
    w.faults.iter().find_map(|f| match f.at {
        crate::plan::FaultAt::TlsCleanClose(k) => Some(k as usize),
        _ => None,
    })
}

pub fn read_tls(w: &mut World, op: u64, ridx: u64, buf: &mut [u8]) -> io::Result<usize> {
    feed(w);
    // the inner (plaintext) client model decides what the client wants to say next
    let all_out_delivered = {
        let t = w.tls.as_ref().unwrap();
        t.out_delivered == t.out.len()
    };
    if all_out_delivered {
        // everything handed to the TLS client so far has reached the server
        w.delivered = w.tls.as_ref().unwrap().inner_written;
        w.client_step_pub();
        let (from, mut to) = (w.tls.as_ref().unwrap().inner_written, w.released);
        if let Some(c) = clean_close_at(w) {
            to = to.min(c);
        }
        if to > from {
            let chunk = w.cbytes[from..to].to_vec();
            let t = w.tls.as_mut().unwrap();
            t.conn
                .writer()
                .write_all(&chunk)
                .expect("harness: TLS client refused plaintext");
            t.inner_written = to;
            t.pump_out();
        }
    }
    // an orderly close in the middle of the script (fault kind TlsCleanClose)
    if let Some(c) = clean_close_at(w) {
        let released = w.released;
        let t = w.tls.as_mut().unwrap();
        if !t.closed && t.inner_written >= c.min(released) && released >= c && !t.conn.is_handshaking() && t.out_delivered == t.out.len() {
            t.closed = true;
            t.conn.send_close_notify();
            t.pump_out();
            if w.fault_fired.is_none() {
                w.fault_fired = Some(op);
                w.ev_pub(Ev::Fault { op });
            }
            w.fault_on_performed = true;
            w.eof_injected = true;
        }
    }
    // script exhausted and everything delivered: an orderly client sends close_notify before
    // closing the socket
    {
        let exhausted = w.released_units >= w.unit_ends.len() && w.released == w.cbytes.len();
        let t = w.tls.as_mut().unwrap();
        if exhausted && t.out_delivered == t.out.len() && t.inner_written == w.released && !t.closed {
            t.closed = true;
            t.conn.send_close_notify();
            t.pump_out();
        }
    }
    let t = w.tls.as_mut().unwrap();
    let avail = t.out.len() - t.out_delivered;
    if avail == 0 || buf.is_empty() {
        w.ev_pub(Ev::ReadEof { op });
        return Ok(0);
    }
    let d = t.out_delivered;
    let mut n = buf.len().min(avail).min(w.sched_size_pub(ridx));
    n = n.min(w.cut_limit_pub(d as u64));
    // end of stream after k bytes of the outer (wire) stream
    let mut eof_at = None;
    for f in &w.faults {
        if let crate::plan::FaultAt::ClientByte(k) = f.at {
            eof_at = Some(k as usize);
        }
    }
    if let Some(k) = eof_at {
        if d >= k {
            if w.fault_fired.is_none() {
                w.fault_fired = Some(op);
                w.ev_pub(Ev::Fault { op });
            }
            w.fault_on_performed = true;
            w.eof_injected = true;
            w.ev_pub(Ev::ReadEof { op });
            return Ok(0);
        }
        n = n.min(k - d);
    }
    let t = w.tls.as_mut().unwrap();
    buf[..n].copy_from_slice(&t.out[d..d + n]);
    t.out_delivered += n;
    w.wire_delivered += n as u64;
    w.ev_pub(Ev::Read {
        op,
        req: buf.len() as u32,
        got: n as u32,
        off: d as u64,
    });
    Ok(n)
}

pub fn finish(w: &mut World) {
    if w.tls.is_some() {
        feed(w);
    }
}
