//! The simulated transport and the world shared between transport, client model and shim.

use crate::dec::{self, Gr, Need};
use crate::enc;
use crate::model::{Cb, Grammar, Model, SeenVal};
use crate::plan::*;
use crate::tlssim::TlsSide;
use std::cell::RefCell;
use std::io::{self, Read, Write};
use std::rc::Rc;

#[derive(Clone, Debug, PartialEq)]
pub enum Ev {
    Read { op: u64, req: u32, got: u32, off: u64 },
    ReadEof { op: u64 },
    ReadErr { op: u64, kind: IoKind },
    Write { op: u64, req: u32, got: u32 },
    WriteErr { op: u64, kind: IoKind },
    Flush { op: u64 },
    FlushErr { op: u64, kind: IoKind },
    Release { op: u64, units: u32 },
    Stall { op: u64, unit: u32 },
    Cb { op: u64, idx: u32 },
    Fault { op: u64 },
}

#[derive(Clone, Debug, PartialEq)]
pub struct ApiRec {
    pub act: u32,
    pub call: &'static str,
    pub ok: bool,
    pub detail: String,
}

#[derive(Clone, Debug, PartialEq)]
pub enum CellStatus {
    Ok,
    Err,
    Panic,
}

#[derive(Clone, Debug, PartialEq)]
pub struct Stall {
    pub op: u64,
    pub unit: usize,
    pub what: &'static str,
}

#[derive(Clone, Copy, Debug, PartialEq, Eq)]
pub enum OpKind {
    Read,
    Write,
    Flush,
}

/// a run that performs more transport operations than this is cut off and reported as wedged
pub const OP_BUDGET: u64 = 40_000_000;
pub const EVENT_CAP: usize = 6_000_000;

pub struct World {
    // ---- static
    pub reads: ReadSched,
    pub writes: WriteSched,
    pub arrival: Arrival,
    pub faults: Vec<Fault>,
    pub hostile: bool,
    pub grammars: Vec<Grammar>,
    /// unit k ends the connection according to the model (k = 0 is the handshake)
    pub unit_ends_conn: Vec<bool>,
    pub acts: Vec<Act>,
    pub auth_reject: Option<u32>,
    pub convert_params: bool,
    // ---- client side (plaintext view)
    pub cbytes: Vec<u8>,
    pub unit_ends: Vec<usize>,
    pub unit_last_seq: Vec<u8>,
    pub released_units: usize,
    pub released: usize,
    pub delivered: usize,
    pub batch_idx: usize,
    // ---- TLS layer (None = plaintext connection)
    pub tls: Option<Box<TlsSide>>,
    // ---- server side (plaintext view: what the client can decode)
    pub sbytes: Vec<u8>,
    pub flushed: usize,
    pub greeting: Option<Result<dec::Greeting, String>>,
    pub dec_pos: usize,
    pub answered: usize,
    pub replies: Vec<Option<Result<dec::Decoded, String>>>,
    pub decode_stopped: bool,
    // ---- raw transport view
    pub wire_s: Vec<u8>,
    pub wire_flushed: usize,
    pub wire_delivered: u64,
    pub wire_written: u64,
    pub flush_count: u64,
    // ---- counters and logs
    pub op: u64,
    pub read_idx: u64,
    pub write_idx: u64,
    pub events: Vec<Ev>,
    pub callbacks: Vec<(u64, Cb)>,
    pub api: Vec<ApiRec>,
    pub cellstat: Vec<(u32, CellStatus)>,
    pub act_next: usize,
    pub stalls: Vec<Stall>,
    pub unflushed_reported: bool,
    pub fault_fired: Option<u64>,
    pub fault_on_performed: bool,
    pub persistent: Option<FaultKind>,
    pub eof_injected: bool,
    pub eintr_fired: u32,
    /// the shim panicked on purpose (Program.ret_panic) with this token
    pub app_panic: Option<u32>,
    /// flush() calls so far (faulted ones included)
    pub flush_calls: u64,
    pub short_writes: u32,
    pub log_events: bool,
    pub last_cb_op: u64,
    pub op_budget_exceeded: bool,
}

pub type Shared = Rc<RefCell<World>>;

fn to_gr(g: Grammar) -> Option<Gr> {
    match g {
        Grammar::Text => Some(Gr::Text),
        Grammar::Binary => Some(Gr::Binary),
        Grammar::Prepare => Some(Gr::Prepare),
        Grammar::FieldList => Some(Gr::FieldList),
        Grammar::NoReply => None,
    }
}

impl World {
    pub fn new(plan: &Plan, model: &Model) -> World {
        // ---- encode the client stream
        let mut cbytes = Vec::new();
        let mut unit_ends = Vec::new();
        let mut unit_last_seq = Vec::new();
        let mut tls = None;
        if let Some(raw) = &plan.raw_client {
            raw.append_to(&mut cbytes);
            unit_ends.push(cbytes.len());
            unit_last_seq.push(0);
        } else {
            let hs = enc::handshake_payload(&plan.handshake.body);
            if let Some(t) = &plan.cfg.tls {
                // outer stream: SSLRequest; everything else goes through the TLS client
                let ssl = enc::ssl_request_payload(&plan.handshake.body);
                let mut outer = Vec::new();
                enc::frame(&mut outer, &ssl, plan.handshake.seq);
                tls = Some(Box::new(TlsSide::new(t, outer)));
                // inner stream: full handshake response with the next sequence id
                let hs = match &plan.handshake.body {
                    HsBody::V41 {
                        caps,
                        maxps,
                        collation,
                        user,
                        tail,
                        reserved,
                    } => enc::handshake_payload(&HsBody::V41 {
                        caps: caps | CLIENT_SSL,
                        maxps: *maxps,
                        collation: *collation,
                        user: user.clone(),
                        tail: tail.clone(),
                        reserved: reserved.clone(),
                    }),
                    _ => hs,
                };
                let last = enc::frame(&mut cbytes, &hs, plan.handshake.seq.wrapping_add(1));
                unit_ends.push(cbytes.len());
                unit_last_seq.push(last);
            } else {
                let last = enc::frame(&mut cbytes, &hs, plan.handshake.seq);
                unit_ends.push(cbytes.len());
                unit_last_seq.push(last);
            }
            for (i, c) in plan.cmds.iter().enumerate() {
                let et = model.cmds[i].eff_types.as_deref();
                let p = enc::cmd_payload(&c.kind, et);
                let last = enc::frame(&mut cbytes, &p, c.seq);
                unit_ends.push(cbytes.len());
                unit_last_seq.push(last);
            }
            if !plan.mutations.is_empty() {
                enc::apply_mutations(&mut cbytes, &plan.mutations);
            }
        }
        let hostile = model.hostile;
        let mut grammars = vec![Grammar::Text];
        let mut unit_ends_conn = vec![model.cmds.is_empty() && false];
        // the handshake unit ends the connection when authentication fails / TLS is refused
        unit_ends_conn[0] = !matches!(
            (&model.auth, &plan.cfg.auth_reject),
            (Some(_), None)
        );
        for m in &model.cmds {
            grammars.push(m.grammar);
            unit_ends_conn.push(m.ends.is_some() || !m.live);
        }
        let n_units = unit_ends.len();
        let mut w = World {
            reads: plan.reads.clone(),
            writes: plan.writes.clone(),
            arrival: plan.arrival.clone(),
            faults: plan.faults.clone(),
            hostile,
            grammars,
            unit_ends_conn,
            acts: model.acts.clone(),
            auth_reject: plan.cfg.auth_reject,
            convert_params: !hostile,
            cbytes,
            unit_ends,
            unit_last_seq,
            released_units: 0,
            released: 0,
            delivered: 0,
            batch_idx: 0,
            tls,
            sbytes: Vec::new(),
            flushed: 0,
            greeting: None,
            dec_pos: 0,
            answered: 0,
            replies: vec![None; n_units],
            decode_stopped: false,
            wire_s: Vec::new(),
            wire_flushed: 0,
            wire_delivered: 0,
            wire_written: 0,
            flush_count: 0,
            op: 0,
            read_idx: 0,
            write_idx: 0,
            events: Vec::new(),
            callbacks: Vec::new(),
            api: Vec::new(),
            cellstat: Vec::new(),
            act_next: 0,
            stalls: Vec::new(),
            unflushed_reported: false,
            fault_fired: None,
            fault_on_performed: false,
            persistent: None,
            eof_injected: false,
            eintr_fired: 0,
            app_panic: None,
            flush_calls: 0,
            short_writes: 0,
            log_events: true,
            last_cb_op: 0,
            op_budget_exceeded: false,
        };
        if w.hostile {
            // hostile streams are delivered without gating
            w.released = w.cbytes.len();
            w.released_units = n_units;
        }
        w
    }

    #[inline]
    pub fn ev_pub(&mut self, e: Ev) {
        self.ev(e)
    }

    #[inline]
    fn ev(&mut self, e: Ev) {
        // the log of a run that spins on the transport is cut (deterministically) rather than
        // allowed to eat the machine's memory before the operation budget ends the run
        if self.log_events && self.events.len() < EVENT_CAP {
            self.events.push(e);
        }
    }

    pub fn log_cb(&mut self, cb: Cb) {
        let op = self.op;
        let idx = self.callbacks.len() as u32;
        self.callbacks.push((op, cb));
        self.last_cb_op = op;
        self.ev(Ev::Cb { op, idx });
    }

    pub fn log_api(&mut self, act: usize, call: &'static str, r: &io::Result<()>) {
        self.api.push(ApiRec {
            act: act as u32,
            call,
            ok: r.is_ok(),
            detail: match r {
                Ok(()) => String::new(),
                Err(e) => format!("{:?}: {}", e.kind(), e),
            },
        });
    }

    /// how many parameters the next on_execute is to pull (None = all)
    pub fn peek_pull(&self) -> (Option<u16>, u16) {
        match self.acts.get(self.act_next) {
            Some(Act::Program(p)) => (p.pull_params, p.pull_skip),
            _ => (None, 0),
        }
    }

    /// next action for a shim callback
    pub fn take_act(&mut self) -> (usize, Act) {
        let i = self.act_next;
        self.act_next += 1;
        (i, self.acts.get(i).cloned().unwrap_or(Act::None))
    }

    // ------------------------------------------------------------------ faults

    fn fault_at(&mut self, op: u64, kind: OpKind) -> Option<FaultKind> {
        if let Some(p) = &self.persistent {
            self.fault_on_performed = true;
            return Some(p.clone());
        }
        let mut hit = None;
        for f in &self.faults {
            let read_hit = kind == OpKind::Read && self.read_idx > 0 && f.at == FaultAt::Read(self.read_idx - 1);
            let flush_hit = kind == OpKind::Flush && self.flush_calls > 0 && f.at == FaultAt::Flush(self.flush_calls - 1);
            if f.at == FaultAt::Op(op) || read_hit || flush_hit {
                hit = Some((f.kind.clone(), f.persistent));
                break;
            }
        }
        if let Some((k, pers)) = hit {
            // ZeroWrite only makes sense on a write
            if k == FaultKind::ZeroWrite && kind != OpKind::Write {
                return None;
            }
            self.fault_fired = Some(op);
            self.fault_on_performed = true;
            self.ev(Ev::Fault { op });
            if pers || k == FaultKind::Eof {
                self.persistent = Some(k.clone());
            }
            return Some(k);
        }
        None
    }

    // ------------------------------------------------------------------ client model

    /// Advance the client's view: decode replies from the flushed server bytes.
    pub fn client_decode(&mut self) {
        if self.hostile {
            return;
        }
        if self.greeting.is_none() {
            match dec::decode_greeting(&self.sbytes[..self.flushed]) {
                Ok((g, n)) => {
                    self.greeting = Some(Ok(g));
                    self.dec_pos = n;
                }
                Err(Need::Incomplete) => return,
                Err(Need::Malformed(m)) => {
                    self.greeting = Some(Err(m));
                    self.decode_stopped = true;
                }
            }
        }
        while !self.decode_stopped && self.answered < self.released_units {
            let u = self.answered;
            if self.unit_ends_conn[u] {
                // nothing can be demanded from here on
                self.decode_stopped = true;
                break;
            }
            match to_gr(self.grammars[u]) {
                None => {
                    self.answered += 1;
                }
                Some(gr) => match dec::decode_reply(&self.sbytes[self.dec_pos..self.flushed], gr) {
                    Ok((d, n)) => {
                        self.replies[u] = Some(Ok(d));
                        self.dec_pos += n;
                        self.answered += 1;
                    }
                    Err(Need::Incomplete) => break,
                    Err(Need::Malformed(m)) => {
                        self.replies[u] = Some(Err(m));
                        self.decode_stopped = true;
                    }
                },
            }
        }
    }

    /// decoding stopped because a reply was malformed (as opposed to: nothing more is owed)
    pub fn decode_stopped_on_error(&self) -> bool {
        self.replies.iter().any(|r| matches!(r, Some(Err(_))))
    }

    /// number of units whose bytes have been completely handed to the server
    fn fully_delivered_units(&self) -> usize {
        let mut n = 0;
        while n < self.unit_ends.len() && self.unit_ends[n] <= self.delivered {
            n += 1;
        }
        n
    }

    /// Called at every read(): invariant check + possibly release more client bytes.
    pub fn client_step_pub(&mut self) {
        self.client_step()
    }

    fn client_step(&mut self) {
        if self.hostile {
            return;
        }
        let op = self.op - 1;
        self.client_decode();
        if self.greeting.is_none() {
            self.stalls.push(Stall {
                op,
                unit: 0,
                what: "server reads before the greeting is flushed",
            });
            self.greeting = Some(Err("greeting not flushed at first read".into()));
            self.decode_stopped = true;
        }
        // C12 invariant: every completely received command has been answered and flushed
        if !self.decode_stopped {
            let fd = self.fully_delivered_units();
            if self.answered < fd {
                let unit = self.answered;
                self.stalls.push(Stall {
                    op,
                    unit,
                    what: "server waits for input while it owes a flushed reply",
                });
                self.ev(Ev::Stall {
                    op,
                    unit: unit as u32,
                });
                // give up on gating so that the run can finish
                self.decode_stopped = true;
            }
        }
        // ... and, whatever the client still expects (also after a command that the model says
        // ends the connection): nothing written may sit unflushed while the server waits
        if !self.unflushed_reported
            && self.stalls.is_empty()
            && self.sbytes.len() != self.flushed
            && self.delivered == self.released
        {
            self.unflushed_reported = true;
            self.stalls.push(Stall {
                op,
                unit: self.answered,
                what: "server waits for input with written but unflushed bytes",
            });
            self.decode_stopped = true;
        }
        if self.delivered < self.released {
            return;
        }
        // everything released so far has been delivered: release the next batch
        let n_units = self.unit_ends.len();
        if self.released_units >= n_units {
            return;
        }
        let mut take = if self.released_units == 0 {
            // the handshake, optionally with the first batch behind it
            1
        } else {
            let b = if self.arrival.batches.is_empty() {
                0
            } else {
                self.arrival.batches[self.batch_idx % self.arrival.batches.len()]
            };
            self.batch_idx += 1;
            if b == 0 {
                n_units
            } else {
                b as usize
            }
        };
        if self.released_units == 0 && self.arrival.with_handshake {
            let b = if self.arrival.batches.is_empty() {
                0
            } else {
                self.arrival.batches[self.batch_idx % self.arrival.batches.len()]
            };
            self.batch_idx += 1;
            take += if b == 0 { n_units } else { b as usize };
        }
        self.released_units = (self.released_units + take).min(n_units);
        self.released = self.unit_ends[self.released_units - 1];
        let units = self.released_units as u32;
        self.ev(Ev::Release { op, units });
    }

    pub fn sched_size_pub(&self, idx: u64) -> usize {
        self.sched_size(idx)
    }

    fn sched_size(&self, idx: u64) -> usize {
        if (idx as usize) < self.reads.explicit.len() {
            return (self.reads.explicit[idx as usize] as usize).max(1);
        }
        let j = idx as usize - self.reads.explicit.len();
        match &self.reads.tail {
            Tail::All => usize::MAX,
            Tail::Fixed(n) => (*n as usize).max(1),
            Tail::Cycle(v) => {
                if v.is_empty() {
                    usize::MAX
                } else {
                    (v[j % v.len()] as usize).max(1)
                }
            }
            Tail::Hash { seed, max } => {
                1 + (crate::rng::mix(&[*seed, j as u64]) % (*max).max(1) as u64) as usize
            }
        }
    }

    pub fn cut_limit_pub(&self, from: u64) -> usize {
        self.cut_limit(from)
    }

    fn cut_limit(&self, from: u64) -> usize {
        // distance to the next cut strictly after `from`
        match self.reads.cuts.iter().find(|c| **c > from) {
            Some(c) => (*c - from) as usize,
            None => usize::MAX,
        }
    }
}

pub struct SimStream {
    pub w: Shared,
}

/// Injected transport errors are what a socket would hand out: errors carrying the OS error
/// code (ECONNRESET, EPIPE, ECONNABORTED, ETIMEDOUT, EHOSTUNREACH, EINTR, EAGAIN), not errors
/// made up from an ErrorKind -- code that looks at `raw_os_error()` sees the real thing.
fn io_err(k: IoKind) -> io::Error {
    let code = match k {
        IoKind::ConnectionReset => libc::ECONNRESET,
        IoKind::BrokenPipe => libc::EPIPE,
        IoKind::ConnectionAborted => libc::ECONNABORTED,
        IoKind::TimedOut => libc::ETIMEDOUT,
        IoKind::Other => libc::EHOSTUNREACH,
        IoKind::Interrupted => libc::EINTR,
        IoKind::WouldBlock => libc::EAGAIN,
    };
    let e = io::Error::from_raw_os_error(code);
    debug_assert!(k == IoKind::Other || e.kind() == k.to_std());
    e
}

impl Read for SimStream {
    fn read(&mut self, buf: &mut [u8]) -> io::Result<usize> {
        let mut w = self.w.borrow_mut();
        let op = w.op;
        w.op += 1;
        let ridx = w.read_idx;
        w.read_idx += 1;
        if op > OP_BUDGET {
            w.op_budget_exceeded = true;
            return Err(io::Error::new(io::ErrorKind::Other, "simulator: operation budget exceeded"));
        }
        if let Some(f) = w.fault_at(op, OpKind::Read) {
            match f {
                FaultKind::Eof => {
                    w.eof_injected = true;
                    w.ev(Ev::ReadEof { op });
                    return Ok(0);
                }
                FaultKind::Err(k) => {
                    w.ev(Ev::ReadErr { op, kind: k });
                    return Err(io_err(k));
                }
                FaultKind::ZeroWrite => {}
            }
        }
        if w.tls.is_some() {
            return crate::tlssim::read_tls(&mut w, op, ridx, buf);
        }
        w.client_step();
        let avail = w.released - w.delivered;
        if avail == 0 || buf.is_empty() {
            w.ev(Ev::ReadEof { op });
            return Ok(0);
        }
        let mut n = buf.len().min(avail).min(w.sched_size(ridx));
        n = n.min(w.cut_limit(w.delivered as u64));
        // EOF-after-k-bytes fault
        let mut eof_at = None;
        for f in &w.faults {
            if let FaultAt::ClientByte(k) = f.at {
                eof_at = Some(k as usize);
            }
        }
        if let Some(k) = eof_at {
            if w.delivered >= k {
                if w.fault_fired.is_none() {
                    w.fault_fired = Some(op);
                    w.ev(Ev::Fault { op });
                }
                w.fault_on_performed = true;
                w.eof_injected = true;
                w.ev(Ev::ReadEof { op });
                return Ok(0);
            }
            n = n.min(k - w.delivered);
        }
        let d = w.delivered;
        buf[..n].copy_from_slice(&w.cbytes[d..d + n]);
        w.delivered += n;
        w.wire_delivered += n as u64;
        w.ev(Ev::Read {
            op,
            req: buf.len() as u32,
            got: n as u32,
            off: d as u64,
        });
        Ok(n)
    }
}

impl Write for SimStream {
    fn write(&mut self, buf: &[u8]) -> io::Result<usize> {
        let mut w = self.w.borrow_mut();
        let op = w.op;
        w.op += 1;
        let widx = w.write_idx;
        w.write_idx += 1;
        if op > OP_BUDGET {
            w.op_budget_exceeded = true;
            return Err(io::Error::new(io::ErrorKind::Other, "simulator: operation budget exceeded"));
        }
        if let Some(f) = w.fault_at(op, OpKind::Write) {
            match f {
                FaultKind::Eof => {
                    w.ev(Ev::WriteErr {
                        op,
                        kind: IoKind::BrokenPipe,
                    });
                    return Err(io_err(IoKind::BrokenPipe));
                }
                FaultKind::Err(k) => {
                    w.ev(Ev::WriteErr { op, kind: k });
                    return Err(io_err(k));
                }
                FaultKind::ZeroWrite => {
                    w.ev(Ev::Write {
                        op,
                        req: buf.len() as u32,
                        got: 0,
                    });
                    return Ok(0);
                }
            }
        }
        if w.writes.eintr_at.contains(&(widx as u32)) {
            w.eintr_fired += 1;
            w.ev(Ev::WriteErr {
                op,
                kind: IoKind::Interrupted,
            });
            return Err(io_err(IoKind::Interrupted));
        }
        let acc = if w.writes.accept.is_empty() {
            0
        } else {
            w.writes.accept[(widx as usize) % w.writes.accept.len()]
        };
        let n = if acc == 0 {
            buf.len()
        } else {
            buf.len().min(acc as usize)
        };
        if n < buf.len() {
            w.short_writes += 1;
        }
        w.wire_written += n as u64;
        if w.tls.is_none() {
            w.sbytes.extend_from_slice(&buf[..n]);
        } else {
            w.wire_s.extend_from_slice(&buf[..n]);
        }
        w.ev(Ev::Write {
            op,
            req: buf.len() as u32,
            got: n as u32,
        });
        Ok(n)
    }

    fn flush(&mut self) -> io::Result<()> {
        let mut w = self.w.borrow_mut();
        let op = w.op;
        w.op += 1;
        w.flush_calls += 1;
        if op > OP_BUDGET {
            w.op_budget_exceeded = true;
            return Err(io::Error::new(io::ErrorKind::Other, "simulator: operation budget exceeded"));
        }
        if let Some(f) = w.fault_at(op, OpKind::Flush) {
            let k = match f {
                FaultKind::Err(k) => k,
                _ => IoKind::BrokenPipe,
            };
            w.ev(Ev::FlushErr { op, kind: k });
            return Err(io_err(k));
        }
        w.wire_flushed = w.wire_s.len();
        w.flush_count += 1;
        if w.tls.is_none() {
            w.flushed = w.sbytes.len();
        }
        w.ev(Ev::Flush { op });
        Ok(())
    }
}

pub fn seen_val_from_inner(v: msql_srv::ValueInner<'_>) -> SeenVal {
    use msql_srv::ValueInner as V;
    match v {
        V::NULL => SeenVal::Null,
        V::Bytes(b) => SeenVal::Bytes(b.to_vec()),
        V::Int(i) => SeenVal::Int(i),
        V::UInt(u) => SeenVal::UInt(u),
        V::Double(f) => SeenVal::Double(f.to_bits()),
        V::Date(b) => SeenVal::Date(b.to_vec()),
        V::Time(b) => SeenVal::Time(b.to_vec()),
        V::Datetime(b) => SeenVal::Datetime(b.to_vec()),
    }
}
