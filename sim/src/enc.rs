//! Client-side encoders: written from the protocol documentation, sharing no code with msql-srv.

use crate::plan::*;

pub const U24_MAX: usize = 0xFF_FFFF;

pub fn put_lenenc_int(out: &mut Vec<u8>, v: u64, form: u8) {
    // form 0 = minimal; 3/4/9 force the 0xFC/0xFD/0xFE prefix when the value fits
    let form = match form {
        3 if v <= 0xFFFF => 3,
        4 if v <= 0xFF_FFFF => 4,
        9 => 9,
        _ => 0,
    };
    match form {
        3 => {
            out.push(0xFC);
            out.extend_from_slice(&(v as u16).to_le_bytes());
        }
        4 => {
            out.push(0xFD);
            out.extend_from_slice(&(v as u32).to_le_bytes()[..3]);
        }
        9 => {
            out.push(0xFE);
            out.extend_from_slice(&v.to_le_bytes());
        }
        _ => {
            if v < 251 {
                out.push(v as u8);
            } else if v <= 0xFFFF {
                put_lenenc_int(out, v, 3)
            } else if v <= 0xFF_FFFF {
                put_lenenc_int(out, v, 4)
            } else {
                put_lenenc_int(out, v, 9)
            }
        }
    }
}

/// Frame one logical payload into packets starting at sequence id `seq`; returns the id of the
/// last packet written.
pub fn frame(out: &mut Vec<u8>, payload: &[u8], seq: u8) -> u8 {
    let mut seq = seq;
    let mut rest = payload;
    loop {
        let n = rest.len().min(U24_MAX);
        out.extend_from_slice(&(n as u32).to_le_bytes()[..3]);
        out.push(seq);
        out.extend_from_slice(&rest[..n]);
        rest = &rest[n..];
        if n < U24_MAX {
            return seq;
        }
        seq = seq.wrapping_add(1);
    }
}

fn reserved23(r: &[u8]) -> [u8; 23] {
    let mut out = [0u8; 23];
    for (i, b) in r.iter().take(23).enumerate() {
        out[i] = *b;
    }
    out
}

pub fn handshake_payload(h: &HsBody) -> Vec<u8> {
    let mut p = Vec::new();
    match h {
        HsBody::V41 {
            caps,
            maxps,
            collation,
            user,
            tail,
            reserved,
        } => {
            p.extend_from_slice(&caps.to_le_bytes());
            p.extend_from_slice(&maxps.to_le_bytes());
            p.push(*collation);
            p.extend_from_slice(&reserved23(reserved));
            p.extend_from_slice(user);
            p.push(0);
            p.extend_from_slice(tail);
        }
        HsBody::V320 {
            caps,
            maxps,
            user,
            tail,
        } => {
            p.extend_from_slice(&caps.to_le_bytes());
            p.extend_from_slice(&maxps.to_le_bytes()[..3]);
            p.extend_from_slice(user);
            p.push(0);
            p.extend_from_slice(tail);
        }
        HsBody::Raw(b) => p.extend_from_slice(b),
    }
    p
}

/// 32-byte SSLRequest derived from a V41 handshake
pub fn ssl_request_payload(h: &HsBody) -> Vec<u8> {
    let mut p = Vec::new();
    if let HsBody::V41 {
        caps,
        maxps,
        collation,
        reserved,
        ..
    } = h
    {
        p.extend_from_slice(&(caps | CLIENT_SSL).to_le_bytes());
        p.extend_from_slice(&maxps.to_le_bytes());
        p.push(*collation);
        p.extend_from_slice(&reserved23(reserved));
    }
    p
}

pub fn is_int_type(t: u8) -> Option<usize> {
    match t {
        0x01 => Some(1),        // TINY
        0x02 | 0x0d => Some(2), // SHORT, YEAR
        0x03 | 0x09 => Some(4), // LONG, INT24
        0x08 => Some(8),        // LONGLONG
        _ => None,
    }
}

pub fn is_bytes_type(t: u8) -> bool {
    matches!(
        t,
        0xfe | 0xfd | 0xfc | 0xf9 | 0xfa | 0xfb | 0xf8 | 0xf7 | 0x00 | 0x0f | 0x10 | 0xf6 | 0xff | 0xf5
    )
}

pub fn is_temporal_type(t: u8) -> bool {
    matches!(t, 0x07 | 0x0c | 0x0a | 0x0b)
}

/// Encode one parameter value for a position bound to (ty, flags)
pub fn put_param(out: &mut Vec<u8>, v: &PVal, ty: u8) {
    match v {
        PVal::Null | PVal::Skip => {}
        PVal::Int(x) => {
            let w = is_int_type(ty).unwrap_or(8);
            out.extend_from_slice(&x.to_le_bytes()[..w]);
        }
        PVal::F32(b) => out.extend_from_slice(&b.to_le_bytes()),
        PVal::F64(b) => out.extend_from_slice(&b.to_le_bytes()),
        PVal::Bytes { data, form } => {
            put_lenenc_int(out, data.len() as u64, *form);
            data.append_to(out);
        }
        PVal::Temporal(body) => {
            out.push(body.len() as u8);
            out.extend_from_slice(body);
        }
    }
}

pub fn param_block(block: &ParamBlock, eff_types: Option<&[(u8, u8)]>) -> Vec<u8> {
    if let Some(raw) = &block.raw {
        return raw.to_vec();
    }
    let n = block.values.len();
    let mut out = Vec::new();
    if n == 0 {
        return out;
    }
    let mut nullmap = vec![0u8; (n + 7) / 8];
    for (i, v) in block.values.iter().enumerate() {
        if matches!(v, PVal::Null) {
            nullmap[i / 8] |= 1 << (i % 8);
        }
    }
    out.extend_from_slice(&nullmap);
    match &block.bind {
        Some(types) => {
            out.push(1);
            for (t, f) in types {
                out.push(*t);
                out.push(*f);
            }
        }
        None => out.push(0),
    }
    for (i, v) in block.values.iter().enumerate() {
        let ty = eff_types
            .and_then(|t| t.get(i))
            .map(|t| t.0)
            .unwrap_or(0xfd);
        put_param(&mut out, v, ty);
    }
    out
}

pub fn cmd_payload(kind: &CmdKind, eff_types: Option<&[(u8, u8)]>) -> Vec<u8> {
    let mut p = Vec::new();
    match kind {
        CmdKind::Query(t) => {
            p.push(0x03);
            t.append_to(&mut p);
        }
        CmdKind::Prepare(t) => {
            p.push(0x16);
            t.append_to(&mut p);
        }
        CmdKind::InitDb(t) => {
            p.push(0x02);
            t.append_to(&mut p);
        }
        CmdKind::FieldList(t) => {
            p.push(0x04);
            t.append_to(&mut p);
        }
        CmdKind::Ping => p.push(0x0e),
        CmdKind::Quit => p.push(0x01),
        CmdKind::Close(id) => {
            p.push(0x19);
            p.extend_from_slice(&id.to_le_bytes());
        }
        CmdKind::Execute {
            stmt,
            flags,
            iters,
            block,
        } => {
            p.push(0x17);
            p.extend_from_slice(&stmt.to_le_bytes());
            p.push(*flags);
            p.extend_from_slice(&iters.to_le_bytes());
            p.extend_from_slice(&param_block(block, eff_types));
        }
        CmdKind::LongData { stmt, param, data } => {
            p.push(0x18);
            p.extend_from_slice(&stmt.to_le_bytes());
            p.extend_from_slice(&param.to_le_bytes());
            data.append_to(&mut p);
        }
        CmdKind::Raw(b) | CmdKind::Unsupported(b) => b.append_to(&mut p),
    }
    p
}

pub fn apply_mutations(bytes: &mut Vec<u8>, muts: &[Mutation]) {
    for m in muts {
        match m {
            Mutation::Set { off, val } => {
                if let Some(b) = bytes.get_mut(*off as usize) {
                    *b = *val;
                }
            }
            Mutation::Insert { off, bytes: ins } => {
                let o = (*off as usize).min(bytes.len());
                let tail = bytes.split_off(o);
                bytes.extend_from_slice(ins);
                bytes.extend_from_slice(&tail);
            }
            Mutation::Delete { off, len } => {
                let o = (*off as usize).min(bytes.len());
                let e = (o + *len as usize).min(bytes.len());
                bytes.drain(o..e);
            }
            Mutation::Truncate { off } => {
                bytes.truncate(*off as usize);
            }
        }
    }
}
