//! The simulated application: interprets the Plan's writer programs through the public API of
//! msql-srv and logs every callback and every writer call.

use crate::model::{Cb, Conv, SeenParam, SeenVal};
use crate::plan::*;
use crate::stream::{seen_val_from_inner, CellStatus, Shared, SimStream};
use chrono::{Datelike, NaiveDate, NaiveDateTime, Timelike};
use msql_srv::*;
use mysql_common as myc;
use std::convert::TryFrom;
use std::io;
use std::io::{Read, Write};
use std::panic::{catch_unwind, AssertUnwindSafe};
use std::time::Duration;

#[derive(Debug)]
pub enum ShimErr {
    Io(io::Error),
    Token(u32),
}

impl From<io::Error> for ShimErr {
    fn from(e: io::Error) -> Self {
        ShimErr::Io(e)
    }
}

pub const PROBE_ABORT: u32 = 0xFFFF_FFF0;

pub struct SimShim<const DEFAULT_INIT: bool> {
    pub w: Shared,
    pub tls: Option<std::sync::Arc<rustls::ServerConfig>>,
}

pub fn mk_column(c: &ColSpec) -> Column {
    Column {
        table: String::from_utf8(c.table.to_vec()).expect("harness: table name must be UTF-8"),
        column: String::from_utf8(c.name.to_vec()).expect("harness: column name must be UTF-8"),
        coltype: ColumnType::try_from(c.coltype).expect("harness: unknown column type"),
        colflags: ColumnFlags::from_bits_truncate(c.flags),
    }
}

/// Wrapper so that heterogeneous rows can go through `write_row`.
pub struct CellVal<'a>(pub &'a Cell);

fn mk_myc(v: &MycV) -> myc::value::Value {
    use myc::value::Value as V;
    match v {
        MycV::Null => V::NULL,
        MycV::Bytes(b) => V::Bytes(b.to_vec()),
        MycV::Int(i) => V::Int(*i),
        MycV::UInt(u) => V::UInt(*u),
        MycV::Float(f) => V::Float(f32::from_bits(*f)),
        MycV::Double(f) => V::Double(f64::from_bits(*f)),
        MycV::Date(y, mo, d, h, mi, s, us) => V::Date(*y, *mo, *d, *h, *mi, *s, *us),
        MycV::Time(n, d, h, m, s, us) => V::Time(*n, *d, *h, *m, *s, *us),
    }
}

fn mk_date(y: i32, m: u32, d: u32) -> NaiveDate {
    NaiveDate::from_ymd_opt(y, m, d).expect("harness: invalid date generated")
}

/// The application's values have nanosecond resolution, the wire has microseconds: the cell's
/// microseconds are what a client must decode, the nanoseconds below them (a deterministic
/// function of the cell, zero for a third of the cells, 999 for another part) are cut off.
fn sub_micro_ns(a: u32, b: u32) -> u32 {
    match (a ^ b.rotate_left(7)) % 6 {
        0 | 1 => 0,
        2 => 999,
        3 => 500,
        _ => (a.wrapping_mul(7919) ^ b) % 1000,
    }
}

fn mk_datetime(y: i32, mo: u32, d: u32, h: u32, mi: u32, s: u32, us: u32) -> NaiveDateTime {
    mk_date(y, mo, d)
        .and_hms_nano_opt(h, mi, s, us * 1000 + sub_micro_ns(us, s + 60 * mi))
        .expect("harness: invalid time generated")
}

/// Apply `$f!(value)` to the concrete Rust value a Cell stands for.
/// payload of a simulated application panic
pub struct AppPanic(pub u32);

macro_rules! with_cell {
    ($cell:expr, $f:ident) => {
        match $cell {
            Cell::U8(v) => $f!(*v),
            Cell::I8(v) => $f!(*v),
            Cell::U16(v) => $f!(*v),
            Cell::I16(v) => $f!(*v),
            Cell::U32(v) => $f!(*v),
            Cell::I32(v) => $f!(*v),
            Cell::U64(v) => $f!(*v),
            Cell::I64(v) => $f!(*v),
            Cell::Usize(v) => $f!(*v as usize),
            Cell::Isize(v) => $f!(*v as isize),
            Cell::F32(b) => $f!(f32::from_bits(*b)),
            Cell::F64(b) => $f!(f64::from_bits(*b)),
            Cell::Bytes(b) => {
                let v = b.to_vec();
                $f!(&v[..])
            }
            Cell::VecBytes(b) => {
                let v = b.to_vec();
                $f!(v)
            }
            Cell::Str(b) => {
                let v = b.to_vec();
                let s = std::str::from_utf8(&v).expect("harness: Str cell must be UTF-8");
                $f!(s)
            }
            Cell::String(b) => {
                let s = String::from_utf8(b.to_vec()).expect("harness: String cell must be UTF-8");
                $f!(s)
            }
            Cell::Date(y, m, d) => $f!(mk_date(*y, *m, *d)),
            Cell::DateTime(y, mo, d, h, mi, s, us) => {
                $f!(mk_datetime(*y, *mo, *d, *h, *mi, *s, *us))
            }
            Cell::Dur(s, us) => $f!(Duration::new(*s, *us * 1000 + sub_micro_ns(*us, *s as u32))),
            Cell::Null(tag) => match tag % 7 {
                0 => $f!(None::<u8>),
                1 => $f!(None::<i64>),
                2 => $f!(None::<&str>),
                3 => $f!(None::<Vec<u8>>),
                4 => $f!(None::<f64>),
                5 => $f!(None::<NaiveDate>),
                _ => $f!(myc::value::Value::NULL),
            },
            Cell::Some(inner) => match &**inner {
                Cell::U8(v) => $f!(Some(*v)),
                Cell::I8(v) => $f!(Some(*v)),
                Cell::U16(v) => $f!(Some(*v)),
                Cell::I16(v) => $f!(Some(*v)),
                Cell::U32(v) => $f!(Some(*v)),
                Cell::I32(v) => $f!(Some(*v)),
                Cell::U64(v) => $f!(Some(*v)),
                Cell::I64(v) => $f!(Some(*v)),
                Cell::Usize(v) => $f!(Some(*v as usize)),
                Cell::Isize(v) => $f!(Some(*v as isize)),
                Cell::F32(b) => $f!(Some(f32::from_bits(*b))),
                Cell::F64(b) => $f!(Some(f64::from_bits(*b))),
                Cell::Bytes(b) | Cell::VecBytes(b) => $f!(Some(b.to_vec())),
                Cell::Str(b) | Cell::String(b) => {
                    $f!(Some(String::from_utf8(b.to_vec()).expect("harness: utf8")))
                }
                Cell::Date(y, m, d) => $f!(Some(mk_date(*y, *m, *d))),
                Cell::DateTime(y, mo, d, h, mi, s, us) => {
                    $f!(Some(mk_datetime(*y, *mo, *d, *h, *mi, *s, *us)))
                }
                Cell::Dur(s, us) => $f!(Some(Duration::new(*s, *us * 1000 + sub_micro_ns(*us, *s as u32)))),
                Cell::Myc(v) => $f!(Some(mk_myc(v))),
                Cell::Null(_) | Cell::Some(_) | Cell::Ref(_) | Cell::OrAnyTemporal(_) => $f!(None::<u8>),
            },
            Cell::Myc(v) => $f!(mk_myc(v)),
            Cell::Ref(inner) => match &**inner {
                Cell::I64(v) => $f!(&*v),
                Cell::VecBytes(b) => {
                    let v = b.to_vec();
                    $f!(&v)
                }
                Cell::Some(x) => match &**x {
                    Cell::I64(v) => {
                        let o = Some(*v);
                        $f!(&o)
                    }
                    _ => $f!(&None::<i64>),
                },
                _ => {
                    let o = None::<i64>;
                    $f!(&o)
                }
            },
            // expected-side marker, never part of a program's rows
            Cell::OrAnyTemporal(_) => $f!(None::<u8>),
        }
    };
}

impl<'a> ToMysqlValue for CellVal<'a> {
    fn to_mysql_text<W: io::Write>(&self, w: &mut W) -> io::Result<()> {
        macro_rules! f {
            ($v:expr) => {
                $v.to_mysql_text(w)
            };
        }
        with_cell!(self.0, f)
    }
    fn to_mysql_bin<W: io::Write>(&self, w: &mut W, c: &Column) -> io::Result<()> {
        macro_rules! f {
            ($v:expr) => {
                $v.to_mysql_bin(w, c)
            };
        }
        with_cell!(self.0, f)
    }
    fn is_null(&self) -> bool {
        macro_rules! f {
            ($v:expr) => {
                $v.is_null()
            };
        }
        with_cell!(self.0, f)
    }
}

fn write_cell<W: Read + Write>(rw: &mut RowWriter<'_, W>, cell: &Cell) -> io::Result<()> {
    macro_rules! f {
        ($v:expr) => {
            rw.write_col($v)
        };
    }
    with_cell!(cell, f)
}

fn errkind(code: u16) -> ErrorKind {
    ErrorKind::from(code)
}

fn convert_param(coltype: u8, value: msql_srv::Value<'_>) -> Conv {
    let inner = value.into_inner();
    let r = catch_unwind(AssertUnwindSafe(|| -> Conv {
        match inner {
            ValueInner::NULL => Conv::Any,
            ValueInner::UInt(_) => match coltype {
                0x01 => Conv::U64(u8::from(value) as u64),
                0x02 | 0x0d => Conv::U64(u16::from(value) as u64),
                0x03 | 0x09 => Conv::U64(u32::from(value) as u64),
                _ => Conv::U64(u64::from(value)),
            },
            ValueInner::Int(_) => match coltype {
                0x01 => Conv::I64(i8::from(value) as i64),
                0x02 | 0x0d => Conv::I64(i16::from(value) as i64),
                0x03 | 0x09 => Conv::I64(i32::from(value) as i64),
                _ => Conv::I64(i64::from(value)),
            },
            ValueInner::Double(_) => {
                if coltype == 0x04 {
                    Conv::F32(f32::from(value).to_bits())
                } else {
                    Conv::F64(f64::from(value).to_bits())
                }
            }
            ValueInner::Bytes(b) => {
                let got: &[u8] = <&[u8]>::from(value);
                let str_ok = if std::str::from_utf8(b).is_ok() {
                    let s: &str = <&str>::from(value);
                    s.as_bytes() == b
                } else {
                    true
                };
                Conv::Bytes(got.to_vec(), str_ok)
            }
            ValueInner::Date(_) => {
                let d = NaiveDate::from(value);
                Conv::Date(d.year(), d.month(), d.day())
            }
            ValueInner::Datetime(_) => {
                let d = NaiveDateTime::from(value);
                Conv::DateTime(
                    d.year(),
                    d.month(),
                    d.day(),
                    d.hour(),
                    d.minute(),
                    d.second(),
                    d.nanosecond() / 1000,
                )
            }
            ValueInner::Time(_) => {
                let d = Duration::from(value);
                Conv::Dur(d.as_secs(), d.subsec_micros())
            }
        }
    }));
    match r {
        Ok(c) => c,
        Err(_) => Conv::Panicked(crate::panichook::take_last().unwrap_or_default()),
    }
}

impl<const D: bool> SimShim<D> {
    /// the application panics in the middle of its callback (writers it holds are dropped while
    /// the thread unwinds); the simulator turns the unwinding back into "the callback failed
    /// with this token"
    fn app_panic(&self, tok: u32) -> ! {
        self.w.borrow_mut().app_panic = Some(tok);
        std::panic::panic_any(AppPanic(tok))
    }

    fn run_program<W: Read + Write>(
        &mut self,
        act_idx: usize,
        p: &Program,
        results: QueryResultWriter<'_, W>,
    ) -> Result<(), ShimErr> {
        // all column vectors must outlive the writer chain. Resultsets whose column lists are
        // prefixes of one another are served from ONE vector (`&schema[..k]`), as an
        // application with a single schema array would: the slices then share their address.
        let specs: Vec<&[ColSpec]> = p
            .units
            .iter()
            .map(|u| match u {
                Unit::Rows(r) => &r.cols[..],
                Unit::Count { .. } | Unit::BulkRows { .. } => &[][..],
            })
            .collect();
        let built: Vec<Vec<Column>> = specs.iter().map(|s| s.iter().map(mk_column).collect()).collect();
        let root: Vec<usize> = (0..specs.len())
            .map(|i| {
                let mut best = i;
                for j in 0..specs.len() {
                    if specs[j].len() > specs[best].len() && specs[j].len() >= specs[i].len() && specs[j][..specs[i].len()] == *specs[i] {
                        best = j;
                    }
                }
                best
            })
            .collect();
        let colsets: Vec<&[Column]> = (0..specs.len()).map(|i| &built[root[i]][..specs[i].len()]).collect();
        let n = p.units.len();
        let mut w = results;
        macro_rules! api {
            ($name:expr, $e:expr) => {{
                let r = $e;
                let rr: io::Result<()> = match &r {
                    Ok(_) => Ok(()),
                    Err(e) => Err(io::Error::new(e.kind(), e.to_string())),
                };
                self.w.borrow_mut().log_api(act_idx, $name, &rr);
                r
            }};
        }
        for (i, u) in p.units.iter().enumerate() {
            if let Some((at, tok)) = p.ret_err {
                if at as usize == i {
                    if p.ret_panic {
                        self.app_panic(tok);
                    }
                    return Err(ShimErr::Token(tok));
                }
            }
            let last = i + 1 == n;
            match u {
                Unit::Count { affected, last_id } => {
                    if last && p.end == End::Implicit {
                        api!("completed", w.completed(*affected, *last_id))?;
                        return Ok(());
                    }
                    w = api!("complete_one", w.complete_one(*affected, *last_id))?;
                }
                Unit::BulkRows { n } => {
                    let mut rw = api!("start", w.start(colsets[i]))?;
                    let mut res = Ok(());
                    for _ in 0..*n {
                        res = rw.end_row();
                        if res.is_err() {
                            break;
                        }
                    }
                    api!("end_row (bulk)", res)?;
                    if last {
                        api!("finish", rw.finish())?;
                        return Ok(());
                    }
                    w = api!("finish_one", rw.finish_one())?;
                }
                Unit::Rows(r) => {
                    let mut rw = api!("start", w.start(colsets[i]))?;
                    let mut row_err: Option<io::Error> = None;
                    'rows: for (ri, row) in r.rows.iter().enumerate() {
                        // apply the contradiction, if it concerns this row
                        let mut cells: Vec<Cell> = row.clone();
                        let mut force_end = false;
                        match &r.contra {
                            Some(Contra::TooFewCols { row: cr }) if *cr as usize == ri => {
                                cells.pop();
                                force_end = true;
                            }
                            Some(Contra::TooManyCols { row: cr, extra }) if *cr as usize == ri => {
                                cells.push(extra.clone());
                                force_end = true;
                            }
                            Some(Contra::NullIntoNotNull { row: cr, col }) if *cr as usize == ri => {
                                if let Some(c) = cells.get_mut(*col as usize) {
                                    *c = Cell::Null(0);
                                }
                                force_end = true;
                            }
                            Some(Contra::WrongKind { row: cr, col, cell }) if *cr as usize == ri => {
                                if let Some(c) = cells.get_mut(*col as usize) {
                                    *c = cell.clone();
                                }
                                force_end = true;
                            }
                            _ => {}
                        }
                        if r.write_row {
                            let lead = if p.mixed_rows > 0 && r.contra.is_none() && cells.len() >= 2 {
                                (p.mixed_rows as usize).min(cells.len() - 1)
                            } else {
                                0
                            };
                            let mut lead_err = None;
                            for cell in &cells[..lead] {
                                if let Err(e) = api!("write_col", write_cell(&mut rw, cell)) {
                                    lead_err = Some(e);
                                    break;
                                }
                            }
                            if let Some(e) = lead_err {
                                row_err = Some(e);
                                break 'rows;
                            }
                            if let Err(e) = api!("write_row", rw.write_row(cells[lead..].iter().map(CellVal))) {
                                if force_end
                                    && e.kind() == io::ErrorKind::InvalidData
                                    && matches!(&r.recover, Some((crate::model::CARRY_ON, _)))
                                {
                                    // a shim that skips a bad record and carries on
                                    continue 'rows;
                                }
                                row_err = Some(e);
                                break 'rows;
                            }
                        } else {
                            for (ci, cell) in cells.iter().enumerate() {
                                if let Some(Contra::RefusedRetry { row: cr, col: cc, bad }) = &r.contra {
                                    if *cr as usize == ri && *cc as usize == ci {
                                        // offer a value that must be refused, then carry on
                                        let res = api!("write_col", write_cell(&mut rw, bad));
                                        if res.is_ok() {
                                            // accepted: the row now has a cell too many; let
                                            // the shape check at end_row / the oracle see it
                                        }
                                    }
                                }
                                if let Some(Contra::OfferedMaybe { row: cr, col: cc, alt }) = &r.contra {
                                    if *cr as usize == ri && *cc as usize == ci {
                                        let res = write_cell(&mut rw, alt);
                                        let accepted = res.is_ok();
                                        // logged as a successful call either way: a refusal is
                                        // as legitimate as an acceptance here
                                        self.w.borrow_mut().log_api(
                                            act_idx,
                                            if accepted { "write_col (offer: accepted)" } else { "write_col (offer: refused)" },
                                            &Ok(()),
                                        );
                                        if accepted {
                                            continue;
                                        }
                                    }
                                }
                                if p.probe_cells {
                                    let st = match catch_unwind(AssertUnwindSafe(|| {
                                        write_cell(&mut rw, cell)
                                    })) {
                                        Ok(Ok(())) => CellStatus::Ok,
                                        Ok(Err(_)) => CellStatus::Err,
                                        Err(_) => CellStatus::Panic,
                                    };
                                    let idx = (ri * 1_000 + ci) as u32;
                                    let bad = st != CellStatus::Ok;
                                    self.w.borrow_mut().cellstat.push((idx, st));
                                    if bad {
                                        std::mem::forget(rw);
                                        return Err(ShimErr::Token(PROBE_ABORT));
                                    }
                                } else {
                                    if let Err(e) = api!("write_col", write_cell(&mut rw, cell)) {
                                        row_err = Some(e);
                                        break 'rows;
                                    }
                                }
                            }
                            let is_last_row = ri + 1 == r.rows.len();
                            if !is_last_row || r.last_row_ended || force_end {
                                if let Err(e) = api!("end_row", rw.end_row()) {
                                    row_err = Some(e);
                                    break 'rows;
                                }
                            }
                        }
                    }
                    if let Some(e) = row_err {
                        match &r.recover {
                            // report the failure to the client instead of propagating it; only
                            // refusals of the value/shape are recovered from: a transport
                            // error handed to the application is propagated like `?` would
                            Some((kind, msg)) if e.kind() == io::ErrorKind::InvalidData && *kind != crate::model::CARRY_ON => {
                                let m = scratch_msg(msg.to_vec());
                                api!("finish_error", rw.finish_error(errkind(*kind), &m))?;
                                return Ok(());
                            }
                            _ => return Err(e.into()),
                        }
                    }
                    match &r.close {
                        Close::FinishOne => {
                            w = api!("finish_one", rw.finish_one())?;
                        }
                        Close::Finish => {
                            api!("finish", rw.finish())?;
                            return Ok(());
                        }
                        Close::Drop => {
                            drop(rw);
                            return Ok(());
                        }
                        Close::FinishError { kind, msg } => {
                            let m = scratch_msg(msg.to_vec());
                            api!("finish_error", rw.finish_error(errkind(*kind), &m))?;
                            return Ok(());
                        }
                    }
                }
            }
        }
        if let Some((at, tok)) = p.ret_err {
            if at as usize == n {
                if p.ret_panic {
                    self.app_panic(tok);
                }
                return Err(ShimErr::Token(tok));
            }
        }
        match &p.end {
            End::Implicit | End::NoMoreResults => {
                api!("no_more_results", w.no_more_results())?;
            }
            End::DropWriter => drop(w),
            End::Error { kind, msg } => {
                let m = scratch_msg(msg.to_vec());
                api!("error", w.error(errkind(*kind), &m[..]))?;
            }
        }
        Ok(())
    }

    fn do_query<W: Read + Write>(
        &mut self,
        query: &str,
        results: QueryResultWriter<'_, W>,
    ) -> Result<(), ShimErr> {
        let (idx, act) = {
            let mut w = self.w.borrow_mut();
            w.log_cb(Cb::Query(query.as_bytes().to_vec()));
            w.take_act()
        };
        match act {
            Act::Program(p) => {
                let r = self.run_program(idx, &p, results);
                match (r, p.ret_err) {
                    // "report, then hang up": the response is complete, and the callback still
                    // returns its own error
                    (Ok(()), Some((at, tok))) if at as usize > p.units.len() => {
                        if p.ret_panic {
                            self.app_panic(tok);
                        }
                        Err(ShimErr::Token(tok))
                    }
                    (r, _) => r,
                }
            }
            _ => {
                results.completed(0, 0)?;
                Ok(())
            }
        }
    }

    fn do_prepare<W: Read + Write>(
        &mut self,
        query: &str,
        info: StatementMetaWriter<'_, W>,
    ) -> Result<(), ShimErr> {
        let (idx, act) = {
            let mut w = self.w.borrow_mut();
            w.log_cb(Cb::Prepare(query.as_bytes().to_vec()));
            w.take_act()
        };
        match act {
            Act::Prepare(PrepAct::Reply { id, params, cols }) => {
                let ps: Vec<Column> = params.iter().map(mk_column).collect();
                let cs: Vec<Column> = cols.iter().map(mk_column).collect();
                let r = info.reply(id, &ps, &cs);
                self.w.borrow_mut().log_api(idx, "reply", &clone_res(&r));
                r?;
                Ok(())
            }
            Act::Prepare(PrepAct::Error { kind, msg }) => {
                let m = scratch_msg(msg.to_vec());
                let r = info.error(errkind(kind), &m[..]);
                self.w.borrow_mut().log_api(idx, "prepare_error", &clone_res(&r));
                r?;
                Ok(())
            }
            Act::Prepare(PrepAct::ReturnErr(tok)) => {
                // the writer must not be dropped virgin according to the docs; answer first
                Err(ShimErr::Token(tok)).map(|()| drop(info))
            }
            _ => {
                info.reply(1, &[], &[])?;
                Ok(())
            }
        }
    }

    fn do_execute<W: Read + Write>(
        &mut self,
        id: u32,
        params: ParamParser<'_>,
        results: QueryResultWriter<'_, W>,
    ) -> Result<(), ShimErr> {
        let convert = self.w.borrow().convert_params;
        let (pull, skip) = self.w.borrow().peek_pull();
        let mut seen = Vec::new();
        // a shim may look at only some of its parameters (or none: an execution refused up
        // front); what it did not pull must not change what later executions see
        let it: Box<dyn Iterator<Item = msql_srv::ParamValue<'_>>> = match pull {
            Some(0) => {
                drop(params);
                Box::new(std::iter::empty())
            }
            Some(k) if skip > 0 => Box::new(params.into_iter().skip(skip as usize).take(k as usize)),
            Some(k) => Box::new(params.into_iter().take(k as usize)),
            None if skip > 0 => Box::new(params.into_iter().skip(skip as usize)),
            None => Box::new(params.into_iter()),
        };
        for p in it {
            let coltype = p.coltype as u8;
            let val: SeenVal = seen_val_from_inner(p.value.into_inner());
            let conv = if convert {
                convert_param(coltype, p.value)
            } else {
                Conv::Any
            };
            seen.push(SeenParam { coltype, val, conv });
        }
        let (idx, act) = {
            let mut w = self.w.borrow_mut();
            w.log_cb(Cb::Execute {
                stmt: id,
                params: seen,
            });
            w.take_act()
        };
        match act {
            Act::Program(p) => {
                let r = self.run_program(idx, &p, results);
                match (r, p.ret_err) {
                    // "report, then hang up": the response is complete, and the callback still
                    // returns its own error
                    (Ok(()), Some((at, tok))) if at as usize > p.units.len() => {
                        if p.ret_panic {
                            self.app_panic(tok);
                        }
                        Err(ShimErr::Token(tok))
                    }
                    (r, _) => r,
                }
            }
            _ => {
                results.completed(0, 0)?;
                Ok(())
            }
        }
    }

    fn do_close(&mut self, stmt: u32) {
        self.w.borrow_mut().log_cb(Cb::Close(stmt));
    }

    fn do_init<W: Read + Write>(&mut self, schema: &str, writer: InitWriter<'_, W>) -> Result<(), ShimErr> {
        let (idx, act) = {
            let mut w = self.w.borrow_mut();
            w.log_cb(Cb::Init(schema.as_bytes().to_vec()));
            w.take_act()
        };
        match act {
            Act::Init(InitAct::Error { kind, msg }) => {
                let m = scratch_msg(msg.to_vec());
                let r = writer.error(errkind(kind), &m[..]);
                self.w.borrow_mut().log_api(idx, "init_error", &clone_res(&r));
                r?;
                Ok(())
            }
            Act::Init(InitAct::ReturnErr(tok)) => Err(ShimErr::Token(tok)),
            _ => {
                let r = writer.ok();
                self.w.borrow_mut().log_api(idx, "init_ok", &clone_res(&r));
                r?;
                Ok(())
            }
        }
    }

    fn do_auth(&mut self, ctx: &AuthenticationContext<'_>) -> Result<(), ShimErr> {
        let certs = ctx
            .tls_client_certs
            .map(|cs| cs.iter().map(|c| c.as_ref().to_vec()).collect::<Vec<_>>());
        let mut w = self.w.borrow_mut();
        w.log_cb(Cb::Auth {
            user: ctx.username.clone(),
            certs,
        });
        match w.auth_reject {
            Some(tok) => Err(ShimErr::Token(tok)),
            None => Ok(()),
        }
    }
}

fn clone_res(r: &io::Result<()>) -> io::Result<()> {
    match r {
        Ok(()) => Ok(()),
        Err(e) => Err(io::Error::new(e.kind(), e.to_string())),
    }
}

macro_rules! common_shim_methods {
    ($W:ty) => {
        type Error = ShimErr;
        fn on_prepare(
            &mut self,
            query: &str,
            info: StatementMetaWriter<'_, $W>,
        ) -> Result<(), ShimErr> {
            self.do_prepare(query, info)
        }
        fn on_execute(
            &mut self,
            id: u32,
            params: ParamParser<'_>,
            results: QueryResultWriter<'_, $W>,
        ) -> Result<(), ShimErr> {
            self.do_execute(id, params, results)
        }
        fn on_close(&mut self, stmt: u32) {
            self.do_close(stmt)
        }
        fn on_query(
            &mut self,
            query: &str,
            results: QueryResultWriter<'_, $W>,
        ) -> Result<(), ShimErr> {
            self.do_query(query, results)
        }
        fn tls_config(&self) -> Option<std::sync::Arc<rustls::ServerConfig>> {
            self.tls.clone()
        }
        fn after_authentication(&mut self, ctx: &AuthenticationContext<'_>) -> Result<(), ShimErr> {
            self.do_auth(ctx)
        }
    };
}

impl MysqlShim<SimStream> for SimShim<false> {
    common_shim_methods!(SimStream);
    fn on_init(&mut self, schema: &str, writer: InitWriter<'_, SimStream>) -> Result<(), ShimErr> {
        self.do_init(schema, writer)
    }
}

/// Uses the library's own default `on_init`.
impl MysqlShim<SimStream> for SimShim<true> {
    common_shim_methods!(SimStream);
}

/// The same shim behind the TCP entry point (`run_on_tcp`), for the loopback differential.
impl MysqlShim<std::net::TcpStream> for SimShim<false> {
    common_shim_methods!(std::net::TcpStream);
    fn on_init(&mut self, schema: &str, writer: InitWriter<'_, std::net::TcpStream>) -> Result<(), ShimErr> {
        self.do_init(schema, writer)
    }
}


/// The application formats its error messages into one reused scratch buffer (`buf.clear();
/// write!(buf, ...); w.error(kind, &buf)`): every message that fits is handed to the library at
/// the same address, whatever its content. Longer ones get an allocation of their own.
enum ScratchMsg {
    Shared(&'static [u8]),
    Own(Vec<u8>),
}

impl std::ops::Deref for ScratchMsg {
    type Target = [u8];
    fn deref(&self) -> &[u8] {
        match self {
            ScratchMsg::Shared(s) => s,
            ScratchMsg::Own(v) => v,
        }
    }
}

impl std::borrow::Borrow<[u8]> for ScratchMsg {
    fn borrow(&self) -> &[u8] {
        self
    }
}

const SCRATCH_LEN: usize = 2048;

thread_local! {
    static SCRATCH: std::cell::Cell<*mut u8> = const { std::cell::Cell::new(std::ptr::null_mut()) };
}

fn scratch_msg(m: Vec<u8>) -> ScratchMsg {
    if m.len() > SCRATCH_LEN {
        return ScratchMsg::Own(m);
    }
    let p = SCRATCH.with(|c| {
        if c.get().is_null() {
            c.set(Box::leak(vec![0u8; SCRATCH_LEN].into_boxed_slice()).as_mut_ptr());
        }
        c.get()
    });
    // one message is alive at a time per thread: every call site hands it to the library and
    // lets go of it before the next one is formatted
    unsafe {
        std::ptr::copy_nonoverlapping(m.as_ptr(), p, m.len());
        ScratchMsg::Shared(std::slice::from_raw_parts(p, m.len()))
    }
}
