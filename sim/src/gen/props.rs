//! Per-property checks: generators + owned oracle rules.

use super::common::*;
use super::conv::*;
use crate::judge::Violation;
use crate::plan::*;
use crate::rng::Rng;
use crate::runner::{Check, JobCtx, Tier};
use crate::sim::Outcome;

pub struct Simple {
    pub id: &'static str,
    pub decided_by: &'static str,
    pub rule_text: &'static str,
    pub quick: u64,
    pub thorough: u64,
    pub budget_q: u64,
    pub budget_t: u64,
    pub owns: &'static [&'static str],
    pub gen: fn(&mut Rng, Tier, u64) -> Plan,
    pub extra: Option<fn(&Plan, &Outcome, &mut Vec<Violation>)>,
    pub assumptions: &'static [&'static str],
}

impl Check for Simple {
    fn id(&self) -> &'static str {
        self.id
    }
    fn decided_by(&self) -> &'static str {
        self.decided_by
    }
    fn rule_text(&self) -> &'static str {
        self.rule_text
    }
    fn jobs(&self, tier: Tier) -> u64 {
        match tier {
            Tier::Quick => self.quick,
            Tier::Thorough => self.thorough,
        }
    }
    fn budget_s(&self, tier: Tier) -> u64 {
        match tier {
            Tier::Quick => self.budget_q,
            Tier::Thorough => self.budget_t,
        }
    }
    fn run_job(&self, rng: &mut Rng, tier: Tier, job: u64, ctx: &mut JobCtx<'_>) {
        // one job in six runs the all-features conversation instead of the property's own
        // generator (judged with the same owned rules): see gen/sink.rs
        let plan = if job % 6 == 5 {
            ctx.stats.bump("probe.kitchen_sink_runs", 1);
            super::sink::gen_sink(rng, tier, job)
        } else {
            (self.gen)(rng, tier, job)
        };
        ctx.eval(&plan);
        tcp_share(&plan, job, ctx);
    }
    fn owns(&self, rule: &str) -> bool {
        self.owns.contains(&rule)
    }
    fn extra_judge(&self, plan: &Plan, out: &Outcome, vs: &mut Vec<Violation>) {
        if let Some(f) = self.extra {
            f(plan, out, vs)
        }
    }
    fn assumptions(&self) -> Vec<&'static str> {
        self.assumptions.to_vec()
    }
    /// rare conditions this check is meant to reach; reported as `unreached_probes` when a
    /// batch never hit them (they never change the verdict)
    fn probes(&self) -> &'static [&'static str] {
        match self.id {
            "C01" => &[
                "read.one_byte",
                "probe.read_ended_inside_header",
                "probe.read_ended_at_command_end",
                "probe.read_spanned_2plus_commands",
                "probe.parse_retried_3plus",
                "probe.inbound_16m_fragment",
            ],
            "C02" => &["probe.read_spanned_2plus_commands", "probe.read_ended_inside_header"],
            "C03" => &["probe.more_results_chain_3plus", "probe.err_after_rows", "fault.short_write", "fault.write_interrupted_benign"],
            "C05" => &["probe.request_seq_ge_250", "probe.outbound_seq_wrapped", "probe.inbound_16m_fragment", "probe.outbound_msg_ge_16m", "probe.tls_runs"],
            "C07" => &["probe.null_bitmap_2plus_bytes"],
            "C12" => &["probe.read_spanned_2plus_commands", "probe.read_ended_inside_header", "probe.read_ended_at_command_end"],
            "C18" => &["probe.tls_runs", "fault.short_write"],
            _ => &[],
        }
    }
}

pub const COMMON_ASSUME_PUB: &[&str] = COMMON_ASSUME;
const COMMON_ASSUME: &[&str] = &[
    "client, transport and application are models (SimStream, scripted client, SimShim); msql-srv, nom, mysql_common, chrono, rustls are the real code built from /repo's working tree",
    "client visibility = bytes the server has flushed to the transport",
    "release build with overflow-checks and debug-assertions on",
    "a clean batch is evidence over sampled schedules/inputs, not proof",
];

// ------------------------------------------------------------------------------------------
// C01 — inbound reassembly under every chunking

fn payload_len_c01(r: &mut Rng) -> usize {
    size_small(r).max(1)
}

/// giant inbound payloads: L = k*(2^24-1)+d with explicit read boundaries around every packet
/// header and fragment boundary
pub fn gen_giant_inbound(r: &mut Rng, seq: u8) -> Plan {
    gen_giant_inbound_opts(r, seq, false)
}

/// `text_only`: the giant command is a QUERY or PREPARE (its text must reach the right callback
/// verbatim), with two or three full packets more often than one
pub fn gen_giant_inbound_opts(r: &mut Rng, seq: u8, text_only: bool) -> Plan {
    gen_giant_inbound_k(r, seq, text_only, None)
}

/// `force_k`: number of full packets (4 full packets = 64 MiB - 4 bytes, just under the
/// `@@max_allowed_packet` the library itself announces)
pub fn gen_giant_inbound_k(r: &mut Rng, seq: u8, text_only: bool, force_k: Option<u64>) -> Plan {
    let drawn = match r.weighted(if text_only { &[25, 45, 30] } else { &[55, 30, 15] }) {
        0 => 1u64,
        1 => 2,
        _ => 3,
    };
    let k = force_k.unwrap_or(drawn);
    let d = r.irange(-3, 3);
    let len = ((k * U24) as i64 + d) as u32;
    let mut cmds = Vec::new();
    match if text_only { 0 } else { r.below(3) } {
        0 => {
            // the payload is command byte + text: text length = len - 1
            let text = Blob::Gen {
                len: len - 1,
                salt: r.next() as u32,
                ascii: true,
            };
            if text_only && r.coin() {
                cmds.push(Cmd {
                    seq,
                    kind: CmdKind::Prepare(text),
                    act: Act::Prepare(PrepAct::Reply {
                        id: 11,
                        params: vec![],
                        cols: vec![],
                    }),
                });
            } else {
                cmds.push(Cmd {
                    seq,
                    kind: CmdKind::Query(text),
                    act: Act::Program(simple_ok_program()),
                });
            }
        }
        1 => {
            cmds.push(Cmd {
                seq: 0,
                kind: CmdKind::Prepare(Blob::lit(b"p")),
                act: Act::Prepare(PrepAct::Reply {
                    id: 4,
                    params: vec![ColSpec {
                        table: Blob::lit(b""),
                        name: Blob::lit(b"p"),
                        coltype: 0xfc,
                        flags: 0,
                    }],
                    cols: vec![],
                }),
            });
            // the giant chunk is the first, a middle or the last chunk of its parameter
            let small = |r: &mut Rng| {
                let n = 1 + r.usize_below(1000);
                Cmd {
                    seq: 0,
                    kind: CmdKind::LongData {
                        stmt: 4,
                        param: 0,
                        data: Blob::Lit(r.bytes(n)),
                    },
                    act: Act::None,
                }
            };
            if r.chance(2, 3) {
                let c = small(r);
                cmds.push(c);
            }
            // payload = 1 + 4 + 2 + data
            cmds.push(Cmd {
                seq,
                kind: CmdKind::LongData {
                    stmt: 4,
                    param: 0,
                    data: Blob::Gen {
                        len: len - 7,
                        salt: r.next() as u32,
                        ascii: false,
                    },
                },
                act: Act::None,
            });
            if r.coin() {
                let c = small(r);
                cmds.push(c);
            }
            cmds.push(Cmd {
                seq: 0,
                kind: CmdKind::Execute {
                    stmt: 4,
                    flags: 0,
                    iters: 1,
                    block: ParamBlock {
                        bind: Some(vec![(0xfc, 0)]),
                        values: vec![PVal::Skip],
                        raw: None,
                    stale_types: None,
                    },
                },
                act: Act::Program(simple_ok_program()),
            });
        }
        _ => {
            // inline giant parameter: payload = 1+4+1+4 + nullmap(1) + flag(1) + types(2) + lenenc(4|9) + data
            cmds.push(Cmd {
                seq: 0,
                kind: CmdKind::Prepare(Blob::lit(b"p")),
                act: Act::Prepare(PrepAct::Reply {
                    id: 4,
                    params: vec![ColSpec {
                        table: Blob::lit(b""),
                        name: Blob::lit(b"p"),
                        coltype: 0xfc,
                        flags: 0,
                    }],
                    cols: vec![],
                }),
            });
            let data_len = len.saturating_sub(18);
            cmds.push(Cmd {
                seq,
                kind: CmdKind::Execute {
                    stmt: 4,
                    flags: 0,
                    iters: 1,
                    block: ParamBlock {
                        bind: Some(vec![(0xfb, 0)]),
                        values: vec![PVal::Bytes {
                            data: Blob::Gen {
                                len: data_len + r.below(12) as u32,
                                salt: r.next() as u32,
                                ascii: false,
                            },
                            form: 0,
                        }],
                        raw: None,
                    stale_types: None,
                    },
                },
                act: Act::Program(simple_ok_program()),
            });
        }
    }
    // a small neighbour on each side so that attribution errors are visible
    cmds.insert(
        0,
        Cmd {
            seq: 0,
            kind: CmdKind::Query(Blob::lit(b"before")),
            act: Act::Program(simple_ok_program()),
        },
    );
    cmds.push(Cmd {
        seq: 0,
        kind: CmdKind::Query(Blob::lit(b"after")),
        act: Act::Program(simple_ok_program()),
    });
    let mut p = Plan::basic(cmds);
    p.arrival = Arrival::upfront();
    let (hdrs, total) = header_offsets(&p);
    let mut cuts = Vec::new();
    for h in &hdrs {
        // 1..3-byte steps within +-8 bytes of every header
        let mut x = h.saturating_sub(8);
        while x < (h + 12).min(total) {
            x += 1 + r.below(3);
            cuts.push(x);
        }
    }
    cuts.sort_unstable();
    cuts.dedup();
    p.reads = ReadSched {
        explicit: vec![],
        cuts,
        tail: Tail::Fixed(*r.pick(&[2_097_152u32, 1_048_576, 4_194_304, 3_000_001])),
    };
    if r.chance(1, 6) {
        // "one giant read": the transport hands over whatever the server asks for
        p.reads = ReadSched::all();
    }
    p
}

/// payloads between the small classes and 2^24: 70 KB .. 6 MB, with neighbours in the same read
fn gen_medium_inbound(r: &mut Rng) -> Plan {
    let mut cmds = Vec::new();
    let n = 2 + r.usize_below(4);
    let big_at = r.usize_below(n);
    let mut have_stmt = false;
    for i in 0..n {
        let len = if i == big_at {
            match r.below(4) {
                0 => r.range(70_000, 300_000) as u32,
                1 => r.range(1_048_000, 1_049_600) as u32,
                2 => r.range(300_000, 3_000_000) as u32,
                _ => r.range(3_000_000, 6_000_000) as u32,
            }
        } else {
            1 + size_small(r).min(3000) as u32
        };
        match r.below(3) {
            0 | 1 => cmds.push(Cmd {
                seq: 0,
                kind: CmdKind::Query(Blob::Gen {
                    len,
                    salt: r.next() as u32,
                    ascii: true,
                }),
                act: Act::Program(simple_ok_program()),
            }),
            _ => {
                if !have_stmt {
                    have_stmt = true;
                    cmds.push(Cmd {
                        seq: 0,
                        kind: CmdKind::Prepare(Blob::lit(b"p")),
                        act: Act::Prepare(PrepAct::Reply {
                            id: 3,
                            params: vec![ColSpec {
                                table: Blob::lit(b""),
                                name: Blob::lit(b"p"),
                                coltype: 0xfc,
                                flags: 0,
                            }],
                            cols: vec![],
                        }),
                    });
                }
                // reply-less command followed immediately by the next one
                cmds.push(Cmd {
                    seq: 0,
                    kind: CmdKind::LongData {
                        stmt: 3,
                        param: 0,
                        data: Blob::Gen {
                            len,
                            salt: r.next() as u32,
                            ascii: false,
                        },
                    },
                    act: Act::None,
                });
                cmds.push(Cmd {
                    seq: 0,
                    kind: CmdKind::Execute {
                        stmt: 3,
                        flags: 0,
                        iters: 1,
                        block: ParamBlock {
                            bind: Some(vec![(0xfc, 0)]),
                            values: vec![PVal::Skip],
                            raw: None,
                            stale_types: None,
                        },
                    },
                    act: Act::Program(simple_ok_program()),
                });
            }
        }
    }
    let mut p = Plan::basic(cmds);
    p.arrival = Arrival::upfront();
    p.reads = ReadSched {
        explicit: vec![],
        cuts: vec![],
        tail: match r.below(4) {
            0 => Tail::All,
            1 => Tail::Fixed(65_536),
            2 => Tail::Hash {
                seed: r.next(),
                max: 400_000,
            },
            _ => Tail::Fixed(4096 * (1 + r.below(64) as u32)),
        },
    };
    if r.coin() {
        let (h, _) = header_offsets(&p);
        add_header_cuts(r, &mut p.reads, &h, 70);
    }
    p
}

pub const GIANTS_Q: u64 = 16;
pub const GIANTS_T: u64 = 1200;

fn gen_c01(r: &mut Rng, t: Tier, job: u64) -> Plan {
    let giants = if t == Tier::Quick { GIANTS_Q } else { GIANTS_T };
    if job == 0 || (t == Tier::Thorough && job % 100 == 0 && job < giants) {
        // the largest command a client is entitled to send: 4 full packets (+ the empty one)
        return gen_giant_inbound_k(r, 0, true, Some(4));
    }
    if job < giants {
        return gen_giant_inbound(r, 0);
    }
    let mediums = if t == Tier::Quick { 400 } else { 20_000 };
    if job < giants + mediums {
        return gen_medium_inbound(r);
    }
    if job % 3_000 == 1_500 {
        // bytes of an earlier command must not come back in (or displace bytes of) a later one:
        // a parameter streamed once, in a large or a small chunk, and sent inline ever after
        let period = *r.pick(&[1usize, 2, 3, 10, 256]);
        let first = *r.pick(&[1_100_000usize, 1_048_576, 2_000_000, 70_000, 20]);
        return super::props2::gen_long_life_after_long_data(r, period, first);
    }
    let n = 1 + r.usize_below(12);
    let mut cmds = Vec::new();
    let mut have_stmt = false;
    for _ in 0..n {
        let k = r.weighted(&[40, 20, 15, 25]);
        match k {
            0 => {
                let l = payload_len_c01(r);
                let mut t = b"q".to_vec();
                t.extend(blob_ascii(r, l - 1).to_vec());
                cmds.push(Cmd {
                    seq: 0,
                    kind: CmdKind::Query(if l > 2048 {
                        Blob::Gen {
                            len: l as u32,
                            salt: r.next() as u32,
                            ascii: true,
                        }
                    } else {
                        Blob::Lit(t)
                    }),
                    act: Act::Program(simple_ok_program()),
                });
            }
            1 => {
                let l = payload_len_c01(r);
                cmds.push(Cmd {
                    seq: 0,
                    kind: CmdKind::Prepare(blob_ascii(r, l)),
                    act: Act::Prepare(PrepAct::Reply {
                        id: 9,
                        params: vec![ColSpec {
                            table: Blob::lit(b""),
                            name: Blob::lit(b"p"),
                            coltype: 0xfc,
                            flags: 0,
                        }],
                        cols: vec![],
                    }),
                });
                have_stmt = true;
            }
            2 => {
                let l = payload_len_c01(r);
                cmds.push(Cmd {
                    seq: 0,
                    kind: CmdKind::InitDb(blob_ascii(r, l)),
                    act: Act::Init(InitAct::Ok),
                });
            }
            _ => {
                if !have_stmt {
                    continue;
                }
                // long data chunks revealed by one execute
                for _ in 0..1 + r.below(3) {
                    let l = size_small(r);
                    cmds.push(Cmd {
                        seq: 0,
                        kind: CmdKind::LongData {
                            stmt: 9,
                            param: 0,
                            data: blob_bytes(r, l),
                        },
                        act: Act::None,
                    });
                }
                cmds.push(Cmd {
                    seq: 0,
                    kind: CmdKind::Execute {
                        stmt: 9,
                        flags: 0,
                        iters: 1,
                        block: ParamBlock {
                            bind: Some(vec![(0xfc, 0)]),
                            values: vec![PVal::Skip],
                            raw: None,
                    stale_types: None,
                        },
                    },
                    act: Act::Program(simple_ok_program()),
                });
            }
        }
    }
    if r.chance(1, 12) {
        // bytes that are not valid UTF-8 cannot be handed to the shim as text: no callback may
        // carry them, repaired or not (last command: the connection may end here)
        let l = 2 + r.usize_below(40);
        let mut t = blob_ascii(r, l).to_vec();
        let at = r.usize_below(t.len());
        t[at] = *r.pick(&[0xffu8, 0xfe, 0x80, 0xc3, 0xe9, 0xc0]);
        if t[at] == 0xc3 {
            t.truncate(at + 1); // truncated multi-byte sequence at the end
        }
        if std::str::from_utf8(&t).is_err() {
            let b = Blob::Lit(t);
            cmds.push(Cmd {
                seq: 0,
                kind: if r.coin() { CmdKind::Query(b) } else { CmdKind::Prepare(b) },
                act: Act::None,
            });
        }
    }
    if r.chance(1, 12) {
        // a client that waits for each reply, and commands that fill the server's read buffer
        // exactly: the command must reach the shim without the server asking for more input
        // first (rule `stall`: a complete command is buffered, yet the server waits)
        let mut cmds: Vec<Cmd> = cmds.into_iter().filter(|c| matches!(c.act, Act::Program(_))).take(3).collect();
        for _ in 0..1 + r.below(3) {
            insert_aligned_query(r, &mut cmds);
        }
        let mut p = Plan::basic(cmds);
        p.arrival = Arrival::lockstep();
        if r.coin() {
            p.reads = gen_reads(r);
        }
        return p;
    }
    let mut p = Plan::basic(cmds);
    p.reads = gen_reads(r);
    // whole client stream available up front: only the read partition varies
    p.arrival = Arrival::upfront();
    if r.chance(1, 3) {
        let (h, _) = header_offsets(&p);
        add_header_cuts(r, &mut p.reads, &h, 60);
    }
    maybe_interrupt_a_read(r, &mut p);
    p
}

/// A read() that reports Interrupted (EINTR), usually with a partial packet buffered. The tree
/// may end the connection with that error or retry the read; either way whatever reaches the
/// shim must still be exactly what the client sent (the callback oracle tolerates callbacks that
/// are missing after a fault, never different ones).
pub fn maybe_interrupt_a_read(r: &mut Rng, p: &mut Plan) {
    if r.chance(1, 5) {
        let n = match r.below(3) {
            0 => r.below(6),
            1 => r.below(40),
            _ => r.below(400),
        };
        p.faults.push(Fault {
            at: FaultAt::Read(n),
            kind: FaultKind::Err(IoKind::Interrupted),
            persistent: false,
        });
    }
}

pub fn c01() -> Simple {
    Simple {
        id: "C01",
        decided_by: "schedules (read chunking) x payload size classes",
        rule_text: "one run = handshake + 1..12 commands (QUERY/PREPARE/INIT_DB/LONG_DATA+EXECUTE) with payload lengths from the cliff classes, whole client stream up front, one seeded partition of it into read() results (1-byte, tiny, <=64, 4096, everything, cycles, explicit cuts around packet headers); the shim's callback log (callback kind + argument bytes) must equal the script exactly. Distinct = distinct plan signature (command kinds x size classes x schedule personality); non-trivial = at least one command served.",
        quick: 150_000,
        thorough: 4_000_000,
        budget_q: 60,
        budget_t: 700,
        owns: &["callback-args", "callback-missing", "callback-extra", "end", "panic", "stall", "param-value", "param-count"],
        gen: gen_c01,
        extra: None,
        assumptions: COMMON_ASSUME,
    }
}

// ------------------------------------------------------------------------------------------
// C02 — routing

fn near_miss(r: &mut Rng) -> Vec<u8> {
    let opts: &[&[u8]] = &[
        b"SELECT @x",
        b"SELECT  @@x",
        b" SELECT @@x",
        b"SELECT@@x",
        b"SELECT USER()",
        b"use",
        b"used x",
        b"USEx",
        b"user ",
        b"USE",
        b"uSE",
        b"select @",
        b"SELECT @",
        b"xSELECT @@a",
        b"US E a",
        b"useful = 1",
        b"SELECT 1 -- SELECT @@x",
        b"\x03SELECT @@x",
        b"\x0e",
        b"\x01",
    ];
    r.pick(opts).to_vec()
}

fn gen_c02(r: &mut Rng, t: Tier, job: u64) -> Plan {
    if job < if t == Tier::Quick { 6 } else { 150 } {
        // multi-packet commands (one, two or three full packets) must reach the right callback
        // verbatim too
        return gen_giant_inbound_opts(r, 0, true);
    }
    let mut o = ConvOpts::std();
    o.max_cmds = 40;
    o.simple_programs = true;
    o.init_errors = false;
    o.prepare_errors = false;
    o.id_pool = vec![0, 1, u32::MAX, 0x0102_0304, 77];
    let mut cmds = gen_conv(r, &o);
    // sprinkle near misses / flex spellings / unknown-id closes
    let extra = r.below(6);
    for _ in 0..extra {
        let pos = r.usize_below(cmds.len() + 1);
        let c = match r.below(4) {
            0 | 1 => Cmd {
                seq: 0,
                kind: CmdKind::Query(Blob::Lit(near_miss(r))),
                act: Act::Program(simple_ok_program()),
            },
            2 => Cmd {
                seq: 0,
                kind: CmdKind::Query(Blob::lit(*r.pick(&[
                    &b"Use db"[..],
                    b"SeLeCt @@x",
                    b"use\tdb",
                    b"Select @@version",
                ]))),
                act: Act::Program(simple_ok_program()),
            },
            _ => Cmd {
                seq: 0,
                kind: CmdKind::Close(r.next() as u32),
                act: Act::None,
            },
        };
        // never insert after a QUIT
        let pos = pos.min(cmds.iter().position(|c| matches!(c.kind, CmdKind::Quit)).unwrap_or(cmds.len()));
        cmds.insert(pos, c);
    }
    // non-UTF-8 text only as the very last command
    if r.chance(1, 10) {
        if matches!(cmds.last().map(|c| &c.kind), Some(CmdKind::Quit)) {
            cmds.pop();
        }
        let mut t = b"q ".to_vec();
        t.extend_from_slice(&[0xff, 0xfe, 0x80]);
        let kind = match r.below(4) {
            0 => CmdKind::Query(Blob::Lit(t)),
            1 => CmdKind::Prepare(Blob::Lit(t)),
            2 => CmdKind::InitDb(Blob::Lit(t)),
            _ => {
                let mut u = b"USE ".to_vec();
                u.extend_from_slice(&[0xc3, 0x28]);
                CmdKind::Query(Blob::Lit(u))
            }
        };
        cmds.push(Cmd {
            seq: 0,
            kind,
            act: Act::None,
        });
    }
    let mut p = finish_plan(r, cmds);
    maybe_interrupt_a_read(r, &mut p);
    p
}

pub fn c02() -> Simple {
    Simple {
        id: "C02",
        decided_by: "command histories (generated) under seeded chunking/pipelining",
        rule_text: "one run = 1..46 commands over all nine kinds incl. built-in probes, USE spellings (bare/back-quoted name, optional ';', surrounding whitespace), near misses that must reach on_query verbatim, random statement ids, non-UTF-8 text as last command; oracle: ordered callback log == reference model's. Distinct = plan signature; non-trivial = >=1 command served.",
        quick: 300_000,
        thorough: 8_000_000,
        budget_q: 40,
        budget_t: 500,
        owns: &["callback-args", "callback-missing", "callback-extra", "end", "panic"],
        gen: gen_c02,
        extra: None,
        assumptions: COMMON_ASSUME,
    }
}

/// One job in 300 also serves its conversation through `run_on_tcp` over a real loopback socket
/// and compares with the simulated run (rule `tcp-differs`, see tcpdiff.rs): the TCP entry
/// point is the one piece of the library the simulated transport cannot be plugged into.
pub fn tcp_share(plan: &Plan, job: u64, ctx: &mut JobCtx<'_>) {
    // (at most 3000 per batch: every differential costs two ephemeral ports for a minute)
    if job % 300 != 123 || job > 900_000 {
        return;
    }
    tcp_always(plan, ctx)
}

pub fn tcp_always(plan: &Plan, ctx: &mut JobCtx<'_>) {
    let p2 = crate::tcpdiff::normalise(plan);
    if crate::tcpdiff::eligible(&p2) {
        ctx.stats.bump("probe.tcp_loopback_conversations", 1);
        ctx.eval(&p2);
    }
}

// ------------------------------------------------------------------------------------------
// C03 — exactly one complete conformant response per command

pub fn add_contradiction_pub(r: &mut Rng, p: &mut Program, binary: bool) -> bool {
    add_contradiction(r, p, binary)
}

fn add_contradiction(r: &mut Rng, p: &mut Program, binary: bool) -> bool {
    // choose a Rows unit with >=1 column and >=1 row, explicit row ending
    let cands: Vec<usize> = p
        .units
        .iter()
        .enumerate()
        .filter(|(_, u)| matches!(u, Unit::Rows(ru) if !ru.cols.is_empty() && !ru.rows.is_empty()))
        .map(|(i, _)| i)
        .collect();
    if cands.is_empty() {
        return false;
    }
    let ui = *r.pick(&cands);
    if r.chance(1, 6) {
        // a date outside what MySQL can represent is offered for a DATE / DATETIME column; the
        // library may refuse or accept it; the rest of the row and of the response must be intact
        if let Unit::Rows(ru) = &mut p.units[ui] {
            let row = r.usize_below(ru.rows.len());
            let col = r.usize_below(ru.cols.len());
            let year = *r.pick(&[-1i32, -4000, 65_536, 70_000, 200_000, 10_000, 65_535]);
            let datetime = r.coin();
            ru.cols[col].coltype = if datetime { *r.pick(&[0x0cu8, 0x07]) } else { 0x0a };
            ru.cols[col].flags &= !0x01;
            for rw in ru.rows.iter_mut() {
                rw[col] = if datetime {
                    Cell::DateTime(2000 + r.below(30) as i32, 1 + r.below(12) as u32, 1 + r.below(28) as u32, r.below(24) as u32, r.below(60) as u32, r.below(60) as u32, if r.coin() { 0 } else { r.below(1_000_000) as u32 })
                } else {
                    Cell::Date(1990 + r.below(60) as i32, 1 + r.below(12) as u32, 1 + r.below(28) as u32)
                };
            }
            let alt = if datetime {
                Cell::DateTime(year, 12, 31, 23, 59, 58, if r.coin() { 0 } else { 999_999 })
            } else {
                Cell::Date(year, 2, 28)
            };
            ru.write_row = false;
            ru.contra = Some(Contra::OfferedMaybe {
                row: row as u32,
                col: col as u32,
                alt,
            });
        }
        return true;
    }
    if r.chance(1, 3) {
        // a value that is refused, after which the shim simply carries on with the real one:
        // the response must be exactly what the program describes
        if let Unit::Rows(ru) = &mut p.units[ui] {
            let row = r.usize_below(ru.rows.len());
            let col = r.usize_below(ru.cols.len());
            let bad = if binary {
                if r.coin() {
                    ru.cols[col].flags |= 0x01;
                    let c = ru.cols[col].clone();
                    for rw in ru.rows.iter_mut() {
                        if is_null_cell(&rw[col]) {
                            rw[col] = gen_cell_for_col(r, c.coltype, c.flags, false);
                        }
                    }
                    Cell::Null(1)
                } else {
                    wrong_kind_cell(r, ru.cols[col].coltype)
                }
            } else if r.coin() {
                Cell::Myc(MycV::Time(true, 0, 1, 2, 3, 0)) // negative TIME: documented as refused
            } else {
                Cell::Myc(MycV::Date(2021, 13, 40, 0, 0, 0, 0)) // not a calendar date
            };
            ru.write_row = false;
            ru.contra = Some(Contra::RefusedRetry {
                row: row as u32,
                col: col as u32,
                bad,
            });
        }
        return true;
    }
    if let Unit::Rows(ru) = &mut p.units[ui] {
        let row = r.usize_below(ru.rows.len()) as u32;
        let kind = if binary { r.below(4) } else { r.below(2) };
        match kind {
            0 => ru.contra = Some(Contra::TooFewCols { row }),
            1 => {
                ru.contra = Some(Contra::TooManyCols {
                    row,
                    extra: Cell::I64(1),
                })
            }
            2 => {
                let col = r.usize_below(ru.cols.len());
                ru.cols[col].flags |= 0x01;
                // the other rows must not hold NULL there
                let c = ru.cols[col].clone();
                for rw in ru.rows.iter_mut() {
                    if is_null_cell(&rw[col]) {
                        rw[col] = gen_cell_for_col(r, c.coltype, c.flags, false);
                    }
                }
                ru.contra = Some(Contra::NullIntoNotNull { row, col: col as u32 });
            }
            _ => {
                let col = r.usize_below(ru.cols.len());
                let ct = ru.cols[col].coltype;
                let wrong = wrong_kind_cell(r, ct);
                ru.contra = Some(Contra::WrongKind {
                    row,
                    col: col as u32,
                    cell: wrong,
                });
            }
        }
        // the contradicting row is ended explicitly; everything after it is never reached
        ru.last_row_ended = true;
        // half of the time the shim reports the failed call to the client (finish_error)
        // instead of propagating it
        if r.coin() && !matches!(ru.contra, Some(Contra::TooManyCols { .. })) {
            // (a row with one cell too many is complete without the refused extra cell, so
            // what a recovering shim owes the client is not fixed by the property)
            ru.recover = Some((gen_errkind(r), gen_errmsg(r)));
        }
        // or the shim writes whole rows, skips the refused record and carries on with the
        // rest: if the tree lets it (everything after the refused row reports success), the
        // client must receive exactly the other rows
        // (only for a row that is too short: a row with a cell too many is complete without it)
        if matches!(ru.contra, Some(Contra::TooFewCols { .. })) && r.chance(1, 3) {
            ru.write_row = true;
            ru.recover = Some((crate::model::CARRY_ON, Blob::lit(b"")));
        }
    }
    true
}

/// a value of a *kind* the column cannot carry (integer width/sign pairs are C15's)
pub fn wrong_kind_cell(r: &mut Rng, coltype: u8) -> Cell {
    let is_int = int_range(coltype, false).is_some();
    let is_str = crate::enc::is_bytes_type(coltype);
    loop {
        let c = match r.below(7) {
            0 => Cell::Bytes(Blob::lit(b"abc")),
            1 => Cell::I64(5),
            2 => Cell::F64(1.5f64.to_bits()),
            3 => Cell::Date(2020, 1, 2),
            4 => Cell::DateTime(2020, 1, 2, 3, 4, 5, 6),
            5 => Cell::Dur(3600, 0),
            _ => Cell::F32(2.5f32.to_bits()),
        };
        let ok = match &c {
            Cell::Bytes(_) => !is_str,
            Cell::I64(_) => !is_int,
            Cell::F64(_) => coltype != 0x05,
            Cell::F32(_) => coltype != 0x05 && coltype != 0x04,
            Cell::Date(..) => coltype != 0x0a,
            Cell::DateTime(..) => coltype != 0x0c && coltype != 0x07,
            Cell::Dur(..) => coltype != 0x0b,
            _ => false,
        };
        if ok {
            return c;
        }
    }
}

fn gen_c03(r: &mut Rng, t: Tier, job: u64) -> Plan {
    if job < if t == Tier::Quick { 10 } else { 250 } {
        // responses whose messages sit on the 2^24-1 boundary: exactly one response, client
        // command-ready afterwards (sentinel PING)
        return super::props3::gen_c04_plan(r, t, job);
    }
    if job == if t == Tier::Quick { 10 } else { 250 } {
        // ... and one whose giant record is refused while the shim carries on
        return super::props3::gen_c04_refused_giant(r);
    }
    let mut o = ConvOpts::std();
    o.sentinel_pings = true;
    o.w = [30, 8, 8, 4, 6, 4, 12, 18, 5, 5];
    let mut cmds = gen_conv(r, &o);
    // one contradiction per ~6 runs, in the last program-bearing command (connection ends there)
    if r.chance(1, 6) {
        let idxs: Vec<usize> = cmds
            .iter()
            .enumerate()
            .filter(|(_, c)| matches!(c.act, Act::Program(_)))
            .map(|(i, _)| i)
            .collect();
        if let Some(&i) = idxs.last() {
            let binary = matches!(cmds[i].kind, CmdKind::Execute { .. });
            if let Act::Program(p) = &mut cmds[i].act {
                add_contradiction(r, p, binary);
            }
        }
    }
    let mut p = finish_plan(r, cmds);
    if r.chance(1, 12) {
        p.cfg.default_on_init = true;
    }
    p
}

pub fn c03() -> Simple {
    Simple {
        id: "C03",
        decided_by: "shim programs x command histories (refinement against RefServer + independent decoder), pipelining exercised",
        rule_text: "one run = 1..12 commands with generated writer programs (1..5 units, 0..9 columns, 0..5 rows, every close/end combination, text and binary, row-shape contradictions, the library's default on_init) interleaved with sentinel PINGs under lock-step/pipelined arrival; oracle: the independent decoder finds exactly one response per reply-expecting command, structurally equal to the model's, zero bytes for no-reply commands, nothing left over. Distinct = plan signature; non-trivial = >=1 command served.",
        quick: 300_000,
        thorough: 8_000_000,
        budget_q: 60,
        budget_t: 600,
        owns: &["early-exit-reply", 
            "resp-shape",
            "resp-more-flag",
            "resp-malformed",
            "resp-missing",
            "resp-extra-bytes",
            "api-call-failed",
            "contradiction-accepted",
            "framing",
            "panic-success",
            "end",
            "decode-myc",
        ],
        gen: gen_c03,
        extra: Some(extra_c03),
        assumptions: COMMON_ASSUME,
    }
}

/// A panic counts against C03 only when every writer call reported success (otherwise the
/// property's letter is met: the contradicting call failed with an error) — see DESIGN 6/C03.
fn extra_c03(_plan: &Plan, out: &Outcome, vs: &mut Vec<Violation>) {
    let mut i = 0;
    while i < vs.len() {
        if vs[i].rule == "panic" {
            let any_api_err = out.w.api.iter().any(|a| !a.ok);
            if !any_api_err {
                let mut v = vs[i].clone();
                v.rule = "panic-success";
                vs.push(v);
            }
        }
        i += 1;
    }
    // after a reported shape error the run ends in Err or in the destructor panic; both are
    // tolerated, so an "end" mismatch caused by that panic must not count
    let api_err = out.w.api.iter().any(|a| !a.ok);
    if api_err {
        vs.retain(|v| v.rule != "end" || !matches!(out.end, crate::sim::RunEnd::Panic { .. }));
    }
}

// ------------------------------------------------------------------------------------------
// C05 — sequence ids

fn gen_c05(r: &mut Rng, t: Tier, job: u64) -> Plan {
    let giants = if t == Tier::Quick { 8 } else { 300 };
    if job < giants {
        // multi-packet request whose fragment ids start near (and pass) 255
        let seq = *r.pick(&[0u8, 1, 253, 254, 255, 252, 127]);
        return gen_giant_inbound(r, seq);
    }
    let giants_out = if t == Tier::Quick { 24 } else { 600 };
    if job == giants || job == giants + 1 || (job < giants + giants_out && job % 50 == 7) {
        // one value of three or four full packets and a bit, handed over in a single write: every
        // continuation packet takes the next id
        let k = if job == giants + 1 { 4u64 } else { 3 };
        let len = (k * 0xFF_FFFF) as u32 + r.below(12) as u32 - if r.coin() { 0 } else { 9 };
        let unit = RowsUnit {
            cols: vec![ColSpec {
                table: Blob::lit(b"t"),
                name: Blob::lit(b"c"),
                coltype: 0xfc,
                flags: 0,
            }],
            rows: vec![vec![Cell::Bytes(Blob::Gen {
                len,
                salt: r.next() as u32,
                ascii: false,
            })]],
            write_row: r.coin(),
            last_row_ended: true,
            close: Close::Finish,
            contra: None,
            recover: None,
        };
        let mut pg = simple_ok_program();
        pg.units = vec![Unit::Rows(unit)];
        pg.end = End::Implicit;
        let mut p = Plan::basic(vec![Cmd {
            seq: gen_seq(r, true),
            kind: CmdKind::Query(Blob::lit(b"one giant value")),
            act: Act::Program(pg),
        }]);
        p.writes = WriteSched::all();
        return p;
    }
    if job < giants + giants_out {
        // responses of k*(2^24-1)+d bytes (d = 0 included): continuation and terminating packets
        // must keep counting
        let mut p = super::props3::gen_c04_plan(r, t, job);
        for c in p.cmds.iter_mut() {
            if r.chance(1, 2) {
                c.seq = gen_seq(r, true);
            }
        }
        return p;
    }
    if job % 40 == 39 {
        // sequence ids across the TLS upgrade (SSLRequest 1, handshake response 2, reply 3),
        // accepted and rejected
        let mut p = super::props4::gen_c18_plan(r, t, job);
        p.cfg.tls_offered = true;
        if r.chance(1, 3) {
            p.cfg.auth_reject = Some(0xA200_0000 | r.below(1 << 20) as u32);
        }
        return p;
    }
    let mut o = ConvOpts::std();
    o.random_seq = true;
    o.max_cmds = 8;
    o.prog_text.max_rows = 5;
    let mut cmds = gen_conv(r, &o);
    // sometimes one long response: many rows or many columns
    if r.chance(1, 6) {
        // now and then a response whose packet count passes 2^16 (and 2 * 2^16): a counter of
        // packets wider than the sequence byte must not saturate or truncate differently
        let rows = if r.chance(1, 400) {
            *r.pick(&[65_525usize, 65_533, 65_540, 131_070, 131_080]) + r.usize_below(6)
        } else {
            200 + r.usize_below(500)
        };
        let unit = RowsUnit {
            cols: vec![ColSpec {
                table: Blob::lit(b"t"),
                name: Blob::lit(b"c"),
                coltype: 0x03,
                flags: 0,
            }],
            rows: (0..rows).map(|i| vec![Cell::I32(i as i32)]).collect(),
            write_row: r.coin(),
            last_row_ended: true,
            close: Close::Finish,
            contra: None,
            recover: None,
        };
        let pos = r.usize_below(cmds.len() + 1).min(cmds.iter().position(|c| matches!(c.kind, CmdKind::Quit)).unwrap_or(cmds.len()));
        cmds.insert(
            pos,
            Cmd {
                seq: gen_seq(r, true),
                kind: CmdKind::Query(Blob::lit(b"many rows")),
                act: Act::Program(Program {
                    units: vec![Unit::Rows(unit)],
                    end: End::Implicit,
                    ret_err: None,
                    probe_cells: false,
                    pull_params: None,
                    pull_skip: 0,
                    mixed_rows: 0,
                    ret_panic: false,
                }),
            },
        );
    } else if r.chance(1, 8) {
        let ncols = 240 + r.usize_below(80);
        let unit = RowsUnit {
            cols: (0..ncols)
                .map(|_| ColSpec {
                    table: Blob::lit(b""),
                    name: Blob::lit(b"c"),
                    coltype: 0x01,
                    flags: 0,
                })
                .collect(),
            rows: vec![(0..ncols).map(|i| Cell::I8(i as i8)).collect()],
            write_row: true,
            last_row_ended: true,
            close: Close::Finish,
            contra: None,
            recover: None,
        };
        cmds.insert(
            0,
            Cmd {
                seq: gen_seq(r, true),
                kind: CmdKind::Query(Blob::lit(b"many cols")),
                act: Act::Program(Program {
                    units: vec![Unit::Rows(unit)],
                    end: End::Implicit,
                    ret_err: None,
                    probe_cells: false,
                    pull_params: None,
                    pull_skip: 0,
                    mixed_rows: 0,
                    ret_panic: false,
                }),
            },
        );
    }
    let mut p = finish_plan(r, cmds);
    if r.chance(1, 4) {
        p.handshake.seq = gen_seq(r, true);
        if p.handshake.seq == 0 {
            p.handshake.seq = 1;
        }
    }
    p
}

pub fn c05() -> Simple {
    Simple {
        id: "C05",
        decided_by: "histories x request sequence ids x response lengths",
        rule_text: "one run = 1..9 commands whose requests start at seeded sequence ids (weighted to 0,1,127,250..255), responses of 1..700 packets (rarely just beyond 65 536 and 131 072 packets); oracle: greeting id 0, i-th response packet id == (last request packet id + 1 + i) mod 256, restart per command. Distinct = plan signature (includes the request ids).",
        quick: 200_000,
        thorough: 5_000_000,
        budget_q: 60,
        budget_t: 600,
        owns: &["seq-ids", "panic", "end", "resp-malformed", "auth-reply", "stall"],
        gen: gen_c05,
        extra: None,
        assumptions: COMMON_ASSUME,
    }
}

// ------------------------------------------------------------------------------------------
// C12 — never waits while owing a flushed reply

fn gen_c12(r: &mut Rng, _t: Tier, _job: u64) -> Plan {
    let mut o = ConvOpts::std();
    o.sentinel_pings = r.coin();
    o.init_errors = true;
    let mut cmds = gen_conv(r, &o);
    if r.chance(1, 10) {
        // replies of many packets, in particular around 256*k packets (the sequence counter
        // comes back to where it started): a one-column resultset of n rows is n + 4 packets
        let rows = match r.below(4) {
            0 => 250 + r.usize_below(5),
            1 => 506 + r.usize_below(5),
            2 => 762 + r.usize_below(5),
            _ => r.usize_below(800),
        };
        let unit = RowsUnit {
            cols: vec![ColSpec {
                table: Blob::lit(b"t"),
                name: Blob::lit(b"c"),
                coltype: 0x03,
                flags: 0,
            }],
            rows: (0..rows).map(|i| vec![Cell::I32(i as i32)]).collect(),
            write_row: r.coin(),
            last_row_ended: true,
            close: Close::Finish,
            contra: None,
            recover: None,
        };
        let pos = r
            .usize_below(cmds.len() + 1)
            .min(cmds.iter().position(|c| matches!(c.kind, CmdKind::Quit)).unwrap_or(cmds.len()));
        cmds.insert(
            pos,
            Cmd {
                seq: 0,
                kind: CmdKind::Query(Blob::lit(b"many packets")),
                act: Act::Program(Program {
                    units: vec![Unit::Rows(unit)],
                    end: End::Implicit,
                    ret_err: None,
                    probe_cells: false,
                    pull_params: None,
                    pull_skip: 0,
                    mixed_rows: 0,
                    ret_panic: false,
                }),
            },
        );
    }
    if r.chance(1, 12) {
        insert_aligned_query(r, &mut cmds);
    }
    if r.chance(1, 10) {
        // an operation on an id that is not open: whatever the server does with it, it must
        // not go back to waiting with bytes it has written but not flushed
        insert_dead_op(r, &mut cmds);
        let mut p = finish_plan(r, cmds);
        p.arrival = if r.coin() { Arrival::lockstep() } else { Arrival::upfront() };
        return p;
    }
    let mut p = finish_plan(r, cmds);
    // arrival styles biased towards lock-step and odd batch sizes
    p.arrival = match r.weighted(&[40, 20, 30, 10]) {
        0 => Arrival::lockstep(),
        1 => Arrival::upfront(),
        2 => {
            let n = 1 + r.usize_below(5);
            Arrival {
                batches: (0..n).map(|_| 1 + r.below(6) as u32).collect(),
                with_handshake: r.coin(),
            }
        }
        _ => Arrival {
            batches: vec![1],
            with_handshake: true,
        },
    };
    if r.chance(1, 3) {
        let (h, _) = header_offsets(&p);
        add_header_cuts(r, &mut p.reads, &h, 40);
    }
    if r.chance(1, 7) {
        // one transport call fails once (Interrupted half of the time; reads, writes and
        // flushes alike): whatever the server makes of it, it must not go back to waiting
        // with a reply that it has written but not flushed
        let kind = match r.below(6) {
            0 | 1 | 2 => IoKind::Interrupted,
            3 => IoKind::WouldBlock,
            4 => IoKind::TimedOut,
            _ => IoKind::BrokenPipe,
        };
        p.faults.push(Fault {
            at: if r.coin() { FaultAt::Op(r.below(90)) } else { FaultAt::Flush(r.below(12)) },
            kind: FaultKind::Err(kind),
            persistent: false,
        });
    }
    p
}

pub fn c12() -> Simple {
    Simple {
        id: "C12",
        decided_by: "schedules (arrival x read chunking); invariant evaluated at every read()",
        rule_text: "one run = a conversation under lock-step / batched / up-front arrival and seeded chunking; invariant at every transport read: every command whose bytes were completely delivered has a complete response in the flushed output and nothing is written-but-unflushed when the server has consumed all released bytes; lock-step runs must end with every command answered. One run in ten contains an EXECUTE / SEND_LONG_DATA for a statement id that is not open; one in seven fails one transport call once (Interrupted / WouldBlock / TimedOut / BrokenPipe at a seeded operation or at the n-th flush): the invariant holds whatever the server makes of it. Distinct = plan signature (includes arrival and chunking personality).",
        quick: 300_000,
        thorough: 8_000_000,
        budget_q: 60,
        budget_t: 600,
        owns: &["stall", "resp-missing", "panic"],
        gen: gen_c12,
        extra: None,
        assumptions: COMMON_ASSUME,
    }
}
