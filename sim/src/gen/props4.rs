//! C11 (greeting / authentication) and C18 (TLS upgrade).

use super::common::*;
use super::conv::*;
use super::props::Simple;
use crate::judge::Violation;
use crate::plan::*;
use crate::rng::Rng;
use crate::runner::Tier;
use crate::sim::{Outcome, RunEnd};

fn v(rule: &'static str, site: impl Into<String>, detail: impl Into<String>) -> Violation {
    Violation {
        rule,
        site: site.into(),
        detail: detail.into(),
    }
}

fn small_conv(r: &mut Rng, max: usize) -> Vec<Cmd> {
    let mut o = ConvOpts::std();
    o.max_cmds = max.max(1);
    o.prog_text.max_units = 2;
    o.prog_text.max_rows = 3;
    // sometimes rows larger than a TLS record / rustls' 64 KiB send buffer
    o.prog_text.big_ok = r.chance(1, 6);
    o.big_ok = o.prog_text.big_ok;
    o.prog_bin = o.prog_text.clone();
    o.prog_bin.binary = true;
    if max == 0 {
        return vec![];
    }
    gen_conv(r, &o)
}

// ------------------------------------------------------------------------------------------
// C11

fn gen_c11(r: &mut Rng, t: Tier, _job: u64) -> Plan {
    let ncmds = r.usize_below(6);
    let cmds = small_conv(r, ncmds);
    let mut p = finish_plan(r, cmds);
    p.handshake = gen_handshake(r);
    if t == Tier::Thorough && r.chance(1, 5) {
        p.handshake.seq = gen_seq(r, true);
    }
    p.cfg.tls_offered = r.chance(1, 3);
    if r.chance(1, 4) {
        p.cfg.auth_reject = Some(0xA000_0000 | r.below(1 << 24) as u32);
    }
    if r.chance(1, 200) {
        // a handshake response whose packet header reads like the first bytes of another
        // protocol (a TLS record 16 03 0x: payloads of 0x010316, 0x020316, 0x030316 bytes) or
        // has one of the lengths where length-encoded quantities change shape: it is a
        // handshake response all the same. The bulk is trailing auth / attribute data.
        if let HsBody::V41 { user, tail, .. } = &mut p.handshake.body {
            let want = *r.pick(&[0x01_0316usize, 0x02_0316, 0x03_0316, 0x01_0316, 0xFFFF, 0x1_0000, 0x1_0001]);
            let fixed = 4 + 4 + 1 + 23 + user.len() + 1;
            if want > fixed {
                *tail = r.bytes(want - fixed);
            }
        }
    }
    if r.chance(1, 12) && !p.cfg.tls_offered {
        // the client asks for TLS although it was not offered: refused before authentication
        if let HsBody::V41 { caps, .. } = &mut p.handshake.body {
            *caps |= CLIENT_SSL;
        }
    }
    if p.cfg.auth_reject.is_some() && !p.cmds.is_empty() && r.coin() {
        // whatever follows a rejected handshake (a half-sent command, a dead peer) must not
        // change what run_on returns: end the stream somewhere behind the handshake. The
        // unchanged server never reads that far, so the fault cannot fire there.
        let (hdrs, total) = header_offsets(&p);
        if hdrs.len() >= 2 && total > hdrs[1] {
            let k = hdrs[1] + 1 + r.below(total - hdrs[1]);
            p.faults.push(Fault {
                at: FaultAt::ClientByte(k),
                kind: FaultKind::Eof,
                persistent: true,
            });
        }
    }
    // commands already pipelined behind the handshake, in the same read or not
    p.arrival = match r.below(4) {
        0 => Arrival::lockstep(),
        1 => Arrival::upfront(),
        2 => Arrival {
            batches: vec![1 + r.below(3) as u32],
            with_handshake: true,
        },
        _ => gen_arrival(r),
    };
    p
}

/// a rejection decides the outcome: once after_authentication has refused, run_on returns the
/// shim's error whatever the transport does afterwards
fn extra_c11(plan: &Plan, out: &Outcome, vs: &mut Vec<Violation>) {
    let Some(tok) = plan.cfg.auth_reject else { return };
    let Some((auth_op, _)) = out.w.callbacks.first() else { return };
    if out.model.auth.is_none() {
        return;
    }
    let fault_after_auth = out.w.fault_fired.map(|f| f > *auth_op).unwrap_or(false);
    if fault_after_auth && out.end != RunEnd::Token(tok) {
        vs.push(v(
            "reject-end",
            format!("got {}", out.end.class()),
            format!(
                "the shim rejected with token {:#x} but run_on returned {:?} (the stream ended behind the handshake)",
                tok, out.end
            ),
        ));
    }
    if out.w.callbacks.len() > 1 {
        vs.push(v(
            "reject-end",
            "callback after rejection",
            format!("callback after a rejected authentication: {}", out.w.callbacks[1].1.short()),
        ));
    }
}

pub fn c11() -> Simple {
    Simple {
        id: "C11",
        decided_by: "inputs (handshake responses) x configurations (TLS offered, accept/reject) x arrival schedule (commands pipelined behind the handshake)",
        rule_text: "one run = greeting + a handshake response in the 4.1 layout (random 32-bit capability masks with PROTOCOL_41, user names of 0..300 arbitrary non-NUL bytes, arbitrary trailing auth/db/plugin bytes) or the 3.20 layout, shim offering TLS or not, accepting or rejecting with a typed token, 0..5 commands released together with the handshake or after it; also CLIENT_SSL requested without TLS on offer. Oracle: first packet has id 0, protocol 10, NUL-terminated version, 8+1 scramble bytes, PROTOCOL_41 advertised, CLIENT_SSL advertised <=> TLS offered; after_authentication exactly once, before any other callback, with the user bytes as sent; reject => ERR 1045/28000, run_on returns that token, no command callback; accept => OK with the next sequence id. Distinct = plan signature.",
        quick: 700_000,
        thorough: 15_000_000,
        budget_q: 60,
        budget_t: 600,
        owns: &[
            "greeting",
            "auth-reply",
            "callback-args",
            "callback-missing",
            "callback-extra",
            "end",
            "panic",
            "seq-ids",
            "resp-malformed",
            "resp-missing",
            "stall",
            "decode-myc",
            "reject-end",
        ],
        gen: gen_c11,
        extra: Some(extra_c11),
        assumptions: super::props::COMMON_ASSUME_PUB,
    }
}

// ------------------------------------------------------------------------------------------
// C18

pub fn gen_c18_plan(r: &mut Rng, t: Tier, job: u64) -> Plan {
    gen_c18(r, t, job)
}

fn gen_c18(r: &mut Rng, _t: Tier, job: u64) -> Plan {
    let ncmds = r.usize_below(9);
    let mut cmds = small_conv(r, ncmds);
    if r.chance(1, 8) {
        // what clients ask once they are on an encrypted connection (the mysql CLI's `status`,
        // Workbench, connectors checking that the session really is encrypted): a statement
        // about TLS is a statement like any other, served by the shim
        let about_tls: &[&str] = &[
            "SHOW STATUS LIKE 'Ssl_cipher'", "SHOW SESSION STATUS LIKE 'Ssl_cipher'", "show status like 'ssl_cipher';", "SHOW STATUS LIKE 'Ssl_version'",
            "SHOW SESSION STATUS LIKE 'Ssl_version'", "SHOW VARIABLES LIKE 'have_ssl'", "SHOW VARIABLES LIKE '%ssl%'", "SHOW GLOBAL VARIABLES LIKE 'tls_version'",
            "SHOW STATUS LIKE 'Ssl%'", "SELECT VARIABLE_VALUE FROM performance_schema.session_status WHERE VARIABLE_NAME = 'Ssl_cipher'", "STATUS", "\\s",
            "SHOW STATUS LIKE 'Ssl_cipher_list'", "SHOW SESSION STATUS LIKE 'Ssl_cipher';",
        ];
        let text = r.pick(about_tls).as_bytes().to_vec();
        if crate::model::route_query(&text) == crate::model::QRoute::Query {
            let cmd = Cmd {
                seq: 0,
                kind: CmdKind::Query(Blob::Lit(text)),
                act: Act::Program(if r.coin() { simple_ok_program() } else { gen_program(r, &ProgOpts::std(false)) }),
            };
            // keep a QUIT (if any) last
            let end = cmds.iter().position(|c| matches!(c.kind, CmdKind::Quit)).unwrap_or(cmds.len());
            let at = r.usize_below(end + 1);
            cmds.insert(at, cmd);
        }
    }
    let mut p = finish_plan(r, cmds);
    // 4.1 handshake with a seeded user name; the SSLRequest is derived from it
    let mut hs = gen_handshake(r);
    if !matches!(hs.body, HsBody::V41 { .. }) {
        hs = Plan::basic(vec![]).handshake;
    }
    p.handshake = hs;
    p.handshake.seq = 1;
    let cert = r.coin();
    p.cfg.tls = Some(TlsClient {
        cert,
        v13: r.chance(2, 3),
        seed: r.next(),
            chain: *r.pick(&[0u8, 0, 1, 2, 3]),
            big_hello: false,
    });
    // a quarter of the runs: a ClientHello of about 5 KiB (does not fit into the first 4096-byte
    // read together with the SSLRequest); the first read then walks sizes around 4096 as well
    let big_hello = r.chance(1, 4);
    if let Some(t) = &mut p.cfg.tls {
        t.big_hello = big_hello;
    }
    p.cfg.tls_offered = !r.chance(1, 12);
    p.cfg.tls_require_cert = cert || r.chance(1, 4);
    if r.chance(1, 10) {
        p.cfg.auth_reject = Some(0xA100_0000 | r.below(1 << 20) as u32);
    }
    p.writes = WriteSched::all(); // Interrupted underneath rustls is a fault (C19), not benign
    if r.chance(1, 3) {
        p.writes.accept = vec![*r.pick(&[1u32, 5, 64, 4096])];
    }
    // split points around SSLRequest | ClientHello: a first read of exactly b bytes, walking b
    // deterministically with the job index, then a seeded personality
    p.reads = gen_reads(r);
    let mut b = (job % 330) as u32;
    if big_hello && r.coin() {
        b = match r.below(4) {
            0 => 0, // as much as the server asks for: SSLRequest + the first 4060 bytes of the hello
            1 => 4090 + r.below(12) as u32,
            2 => 36 + 4096 + r.below(8) as u32,
            _ => 5000 + r.below(300) as u32,
        };
    }
    p.reads.explicit = if b == 0 { vec![] } else { vec![b] };
    if r.chance(1, 6) {
        p.reads.explicit.push(1 + r.below(40) as u32);
    }
    p.arrival = match r.below(3) {
        0 => Arrival::lockstep(),
        1 => Arrival::upfront(),
        _ => gen_arrival(r),
    };
    p
}

fn extra_c18(plan: &Plan, out: &Outcome, vs: &mut Vec<Violation>) {
    let Some(t) = &out.w.tls else { return };
    if !plan.cfg.tls_offered {
        // refused: nothing but the plaintext greeting may have been sent
        return;
    }
    let w = &out.w;
    let faulted = w.fault_fired.is_some();
    if let Some(e) = &t.error {
        vs.push(v("tls-client-error", crate::judge::erase_nums(e), e.clone()));
    }
    // (1) every server byte after the greeting belongs to a well-formed TLS record
    let greet = if w.wire_s.len() >= 4 {
        4 + (w.wire_s[0] as usize | (w.wire_s[1] as usize) << 8 | (w.wire_s[2] as usize) << 16)
    } else {
        w.wire_s.len()
    };
    let mut pos = greet.min(w.wire_s.len());
    let b = &w.wire_s;
    while pos < b.len() {
        if b.len() - pos < 5 {
            if !faulted && !matches!(out.end, RunEnd::Panic { .. }) {
                vs.push(v(
                    "tls-plaintext-leak",
                    "partial record header",
                    format!("{} stray byte(s) at wire offset {}", b.len() - pos, pos),
                ));
            }
            break;
        }
        let ty = b[pos];
        let (maj, min) = (b[pos + 1], b[pos + 2]);
        let len = (b[pos + 3] as usize) << 8 | b[pos + 4] as usize;
        if !(20..=23).contains(&ty) || maj != 3 || !(min == 1 || min == 3) || len > 16_384 + 256 {
            vs.push(v(
                "tls-plaintext-leak",
                "not a TLS record",
                format!(
                    "server bytes after the greeting at wire offset {} do not form a TLS record: {:02x?}",
                    pos,
                    &b[pos..(pos + 12).min(b.len())]
                ),
            ));
            break;
        }
        if b.len() - pos - 5 < len {
            if !faulted && !matches!(out.end, RunEnd::Panic { .. }) {
                vs.push(v("tls-plaintext-leak", "truncated record", format!("at wire offset {}", pos)));
            }
            break;
        }
        pos += 5 + len;
    }
    if !faulted && matches!(out.end, RunEnd::Ok) && !t.handshake_done {
        vs.push(v(
            "tls-client-error",
            "handshake incomplete",
            "run_on returned Ok but the TLS client never completed its handshake",
        ));
    }
}

pub fn c18() -> Simple {
    Simple {
        id: "C18",
        decided_by: "schedules (split points of the byte stream around SSLRequest | ClientHello and chunking of all later TLS records) x configurations (TLS 1.3 / 1.2, client certificate, TLS offered or not, accept/reject)",
        rule_text: "one run = greeting, SSLRequest (seq 1), a real rustls client handshake with seeded randomness and key shares (byte-identical per seed), the full handshake response inside TLS (seq 2), 0..8 commands lock-step or pipelined; the first read returns exactly b bytes with b walking 0..329 with the job index (SSLRequest alone, +1 byte of TLS, partial record header, whole ClientHello, ...), later reads follow a seeded personality. Oracle: every server byte after the greeting packet belongs to a well-formed TLS record and the rustls client accepts the stream; after_authentication sees the user name sent inside TLS and the client's certificate chain complete and in order (1..4 certificates; or none); callback log and decoded replies equal the reference model's (the same oracles as over plaintext); sequence ids continue (auth OK has id 3); TLS requested but not offered => run_on returns Err before after_authentication. Distinct = plan signature (includes first-read size and TLS configuration).",
        quick: 200_000,
        thorough: 3_000_000,
        budget_q: 60,
        budget_t: 900,
        owns: &[
            "tls-client-error",
            "tls-plaintext-leak",
            "callback-args",
            "callback-missing",
            "callback-extra",
            "param-count",
            "param-type",
            "param-value",
            "end",
            "panic",
            "seq-ids",
            "greeting",
            "auth-reply",
            "resp-shape",
            "resp-malformed",
            "resp-missing",
            "resp-extra-bytes",
            "resp-more-flag",
            "stall",
            "framing",
        ],
        gen: gen_c18,
        extra: Some(extra_c18),
        assumptions: &[
            "the TLS client is a real rustls ClientConnection driven in memory; its randomness and X25519 key shares come from a seeded CryptoProvider, certificates are fixed Ed25519 fixtures, verifiers compare against the fixtures and verify signatures without reading a clock",
            "client visibility = bytes the server has flushed to the transport (rustls flushes the socket after each batch of records)",
            "the rustls server inside msql-srv is the real code with the seeded provider handed in through the shim's tls_config()",
            "a clean batch is evidence over sampled schedules, not proof",
        ],
    }
}
