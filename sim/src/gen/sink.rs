//! The "kitchen sink" conversation: every feature of the protocol and of the simulator at a low
//! rate in one generator. Every check runs a share of its jobs on these plans (judged with the
//! rules it owns), because a realistic change to one feature usually breaks a property through
//! a neighbouring one (TLS x large rows, long data x re-PREPARE, pipelining x errors, ...): the
//! lesson of the seeded-change waves recorded in DESIGN.md 10.4.

use super::common::*;
use super::conv::*;
use super::props::{gen_giant_inbound, maybe_interrupt_a_read};
use crate::plan::*;
use crate::rng::Rng;
use crate::runner::Tier;

fn many_rows_cmd(r: &mut Rng, binary_stmt: Option<u32>) -> Cmd {
    let rows = match r.below(5) {
        0 => 250 + r.usize_below(5),
        1 => 506 + r.usize_below(5),
        2 => 762 + r.usize_below(5),
        _ => 20 + r.usize_below(600),
    };
    let unit = RowsUnit {
        cols: vec![ColSpec {
            table: Blob::lit(b"t"),
            name: Blob::lit(b"c"),
            coltype: 0x03,
            flags: 0,
        }],
        rows: (0..rows)
            .map(|i| vec![if i % 7 == 3 { Cell::Null(1) } else { Cell::I32(i as i32 - 300) }])
            .collect(),
        write_row: r.coin(),
        last_row_ended: r.coin(),
        close: if r.coin() { Close::Finish } else { Close::Drop },
        contra: None,
        recover: None,
    };
    let prog = Program {
        units: vec![Unit::Rows(unit)],
        end: End::Implicit,
        ret_err: None,
        probe_cells: false,
        pull_params: None,
        pull_skip: 0,
        mixed_rows: 0,
        ret_panic: false,
    };
    match binary_stmt {
        Some(id) => Cmd {
            seq: 0,
            kind: CmdKind::Execute {
                stmt: id,
                flags: 0,
                iters: 1,
                block: ParamBlock {
                    bind: None,
                    values: vec![],
                    raw: None,
                    stale_types: None,
                },
            },
            act: Act::Program(prog),
        },
        None => Cmd {
            seq: 0,
            kind: CmdKind::Query(Blob::lit(b"many packets")),
            act: Act::Program(prog),
        },
    }
}

/// Quantities that are counted rather than sized, taken past the points where a byte- or
/// word-sized counter would wrap (255/256/257, 65 535/65 536/65 537): commands per connection,
/// results per response, rows of a zero-column resultset, long-data chunks per parameter,
/// executions per statement.
fn gen_counts_plan(r: &mut Rng) -> Plan {
    let around = |r: &mut Rng| -> usize {
        let base = if r.chance(1, 4) { 65_536usize } else { 256 };
        base - 2 + r.usize_below(5)
    };
    let ping = || Cmd {
        seq: 0,
        kind: CmdKind::Ping,
        act: Act::None,
    };
    let mut cmds = Vec::new();
    match r.below(5) {
        0 => {
            // many commands on one connection
            let n = around(r);
            for i in 0..n {
                if i % 97 == 13 {
                    cmds.push(Cmd {
                        seq: 0,
                        kind: CmdKind::Query(Blob::lit(b"select n")),
                        act: Act::Program(simple_ok_program()),
                    });
                } else {
                    cmds.push(ping());
                }
            }
        }
        1 => {
            // many results in one response
            let n = 254 + r.usize_below(5);
            let units: Vec<Unit> = (0..n)
                .map(|i| Unit::Count {
                    affected: i as u64,
                    last_id: (n - i) as u64,
                })
                .collect();
            cmds.push(Cmd {
                seq: 0,
                kind: CmdKind::Query(Blob::lit(b"call many_results()")),
                act: Act::Program(Program {
                    units,
                    end: End::Implicit,
                    ret_err: None,
                    probe_cells: false,
                    pull_params: None,
                    pull_skip: 0,
                    mixed_rows: 0,
                    ret_panic: false,
                }),
            });
        }
        2 => {
            // a zero-column resultset with many rows: the OK's affected-row count passes the
            // one-byte and two-byte length-encoded forms
            let n = match r.below(3) {
                0 => 249 + r.usize_below(5),
                1 => around(r),
                _ => 65_534 + r.usize_below(5),
            };
            cmds.push(Cmd {
                seq: 0,
                kind: CmdKind::Query(Blob::lit(b"insert many")),
                act: Act::Program(Program {
                    units: vec![Unit::Rows(RowsUnit {
                        cols: vec![],
                        rows: vec![vec![]; n],
                        write_row: r.coin(),
                        last_row_ended: true,
                        close: Close::Finish,
                        contra: None,
                        recover: None,
                    })],
                    end: End::Implicit,
                    ret_err: None,
                    probe_cells: false,
                    pull_params: None,
                    pull_skip: 0,
                    mixed_rows: 0,
                    ret_panic: false,
                }),
            });
        }
        3 => {
            // many long-data chunks for one parameter
            let n = around(r).min(70_000);
            cmds.push(Cmd {
                seq: 0,
                kind: CmdKind::Prepare(Blob::lit(b"p")),
                act: Act::Prepare(PrepAct::Reply {
                    id: 4,
                    params: vec![gen_col_text(r)],
                    cols: vec![],
                }),
            });
            for i in 0..n {
                cmds.push(Cmd {
                    seq: 0,
                    kind: CmdKind::LongData {
                        stmt: 4,
                        param: 0,
                        data: Blob::Lit(vec![b'a' + (i % 26) as u8; 1 + i % 3]),
                    },
                    act: Act::None,
                });
            }
            cmds.push(Cmd {
                seq: 0,
                kind: CmdKind::Execute {
                    stmt: 4,
                    flags: 0,
                    iters: 1,
                    block: ParamBlock {
                        bind: Some(vec![(0xfc, 0)]),
                        values: vec![PVal::Skip],
                        raw: None,
                        stale_types: None,
                    },
                },
                act: Act::Program(simple_ok_program()),
            });
        }
        _ => {
            // many executions of one statement, types bound once
            let n = around(r).min(66_000);
            cmds.push(Cmd {
                seq: 0,
                kind: CmdKind::Prepare(Blob::lit(b"p")),
                act: Act::Prepare(PrepAct::Reply {
                    id: 5,
                    params: vec![gen_col_text(r)],
                    cols: vec![],
                }),
            });
            for i in 0..n {
                cmds.push(Cmd {
                    seq: 0,
                    kind: CmdKind::Execute {
                        stmt: 5,
                        flags: 0,
                        iters: 1,
                        block: ParamBlock {
                            bind: if i == 0 { Some(vec![(0x03, 0)]) } else { None },
                            values: vec![PVal::Int(i as i64 - 7)],
                            raw: None,
                            stale_types: None,
                        },
                    },
                    act: Act::Program(simple_ok_program()),
                });
            }
        }
    }
    cmds.push(ping());
    let mut p = Plan::basic(cmds);
    p.arrival = match r.below(3) {
        0 => Arrival::lockstep(),
        1 => Arrival::upfront(),
        _ => Arrival {
            batches: vec![7, 1, 300],
            with_handshake: r.coin(),
        },
    };
    p
}

pub fn gen_sink(r: &mut Rng, tier: Tier, job: u64) -> Plan {
    if r.chance(1, 250) {
        return gen_counts_plan(r);
    }
    // rare: the giant ends of the size spectrum
    if r.chance(1, 2500) {
        let sq = gen_seq(r, true);
        return gen_giant_inbound(r, sq);
    }
    if r.chance(1, 2500) {
        return super::props3::gen_c04_plan(r, tier, job);
    }
    let mut o = ConvOpts::std();
    // thorough tier: a third of the sink conversations are long histories (up to 90 commands,
    // ten statement ids, up to 65 parameters) -- state left behind by early steps gets the
    // chance to meet late ones
    let long = tier == Tier::Thorough && r.chance(1, 3);
    o.max_cmds = if long { 20 + r.usize_below(70) } else { 3 + r.usize_below(14) };
    if long {
        o.id_pool = vec![1, 2, 3, 0, u32::MAX, 7, 8, 9, 100, 0x0001_0000];
        o.quit_at_end = 10;
    }
    o.random_seq = r.chance(1, 3);
    o.sentinel_pings = r.coin();
    o.big_ok = r.chance(1, 10);
    o.prog_text.big_ok = o.big_ok;
    o.prog_bin.big_ok = o.big_ok;
    o.max_params = if long { *r.pick(&[5usize, 9, 17, 33, 65]) } else { *r.pick(&[2usize, 5, 5, 9, 17]) };
    if r.chance(1, 3) {
        // long data heavy
        o.w = [20, 4, 4, 4, 6, 2, 14, 22, 18, 6];
    }
    let mut cmds = gen_conv(r, &o);
    let quit_at = |cmds: &Vec<Cmd>| cmds.iter().position(|c| matches!(c.kind, CmdKind::Quit)).unwrap_or(cmds.len());
    // a reply of many packets (sequence counter wraps, 256*k packets)
    if r.chance(1, 12) {
        let pos = r.usize_below(cmds.len() + 1).min(quit_at(&cmds));
        cmds.insert(pos, many_rows_cmd(r, None));
    }
    // contradiction (propagated or recovered) in the last program-bearing command
    if r.chance(1, 10) {
        if let Some(i) = cmds.iter().rposition(|c| matches!(c.act, Act::Program(_))) {
            let binary = matches!(cmds[i].kind, CmdKind::Execute { .. });
            if let Act::Program(p) = &mut cmds[i].act {
                super::props::add_contradiction_pub(r, p, binary);
            }
        }
    }
    // a shim error token somewhere (not in a program that already carries a contradiction)
    if r.chance(1, 25) {
        if let Some(i) = cmds.iter().position(|c| {
            matches!(&c.act, Act::Program(p) if !p.units.iter().any(|u| matches!(u, Unit::Rows(r) if r.contra.is_some())))
        }) {
            if let Act::Program(p) = &mut cmds[i].act {
                let at = r.below(p.units.len() as u64 + 2) as u32;
                p.ret_err = Some((at, 0xE200_0000 | r.below(1 << 20) as u32));
                p.ret_panic = r.chance(1, 3);
            }
        }
    }
    // non-UTF-8 text as the last command
    if r.chance(1, 20) {
        while matches!(cmds.last().map(|c| &c.kind), Some(CmdKind::Quit)) {
            cmds.pop();
        }
        let mut t = b"q ".to_vec();
        t.extend_from_slice(&[0xff, 0xc3]);
        cmds.push(Cmd {
            seq: 0,
            kind: if r.coin() {
                CmdKind::Query(Blob::Lit(t))
            } else {
                CmdKind::Prepare(Blob::Lit(t))
            },
            act: Act::None,
        });
    }
    if r.chance(1, 30) {
        insert_aligned_query(r, &mut cmds);
    }
    fix_long_data(&mut cmds);
    sprinkle_pulls(r, &mut cmds, 12);
    // an operation on a statement id that is not open (ends the conversation there)
    if r.chance(1, 14) {
        insert_dead_op(r, &mut cmds);
    }
    let mut p = Plan::basic(cmds);
    p.handshake = gen_handshake(r);
    p.reads = gen_reads(r);
    p.arrival = gen_arrival(r);
    p.writes = gen_writes(r, true);
    if r.chance(1, 4) {
        let (h, _) = header_offsets(&p);
        add_header_cuts(r, &mut p.reads, &h, 50);
    }
    if r.chance(1, 15) {
        p.cfg.default_on_init = true;
    }
    if r.chance(1, 25) {
        p.cfg.auth_reject = Some(0xA300_0000 | r.below(1 << 20) as u32);
    }
    // TLS (needs the 4.1 layout; Interrupted underneath rustls is a fault, not benign)
    if r.chance(1, 15) && matches!(p.handshake.body, HsBody::V41 { .. }) {
        let cert = r.coin();
        p.cfg.tls_offered = true;
        p.cfg.tls_require_cert = cert || r.chance(1, 4);
        p.cfg.tls = Some(TlsClient {
            cert,
            v13: r.chance(2, 3),
            seed: r.next(),
            chain: *r.pick(&[0u8, 0, 1, 2, 3]),
            big_hello: r.chance(1, 5),
        });
        p.handshake.seq = 1;
        p.writes.eintr_at.clear();
        p.reads.cuts.clear();
        if r.coin() {
            p.reads.explicit = vec![1 + r.below(330) as u32];
        }
    } else {
        p.cfg.tls_offered = r.chance(1, 6);
        maybe_interrupt_a_read(r, &mut p);
    }
    p
}
