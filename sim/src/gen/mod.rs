pub mod common;
pub mod conv;
pub mod props;

use crate::runner::Check;

pub fn all_checks() -> Vec<Box<dyn Check>> {
    vec![
        Box::new(props::c01()),
        Box::new(props::c02()),
        Box::new(props::c03()),
        Box::new(props::c05()),
        Box::new(props::c12()),
    ]
}
