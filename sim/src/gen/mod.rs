pub mod common;
pub mod conv;
pub mod props;
pub mod props2;
pub mod props3;
pub mod props4;
pub mod sink;

use crate::runner::Check;

pub fn all_checks() -> Vec<Box<dyn Check>> {
    vec![
        Box::new(props::c01()),
        Box::new(props::c02()),
        Box::new(props::c03()),
        Box::new(props::c05()),
        Box::new(props::c12()),
        Box::new(props2::c06()),
        Box::new(props2::c07()),
        Box::new(props2::c08()),
        Box::new(props2::c09()),
        Box::new(props2::c10()),
        Box::new(props2::C13),
        Box::new(props2::c14()),
        Box::new(props2::c16()),
        Box::new(props2::c17()),
        Box::new(props3::C04),
        Box::new(props3::C15),
        Box::new(props3::C19),
        Box::new(props3::C20),
        Box::new(props4::c11()),
        Box::new(props4::c18()),
    ]
}
