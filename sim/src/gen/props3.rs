//! Checks C04 (giant outbound messages), C15 (integer exactness), C19 (fault enumeration),
//! C20 (hostile client bytes).

use super::common::*;
use super::conv::*;
use crate::dec::{DecResp, DecRow, DecUnit};
use crate::judge::{bin_match, cell_kind, Violation};
use crate::plan::*;
use crate::rng::Rng;
use crate::runner::{Check, JobCtx, Tier};
use crate::sim::{Outcome, RunEnd};
use crate::stream::{CellStatus, Ev};

fn v(rule: &'static str, site: impl Into<String>, detail: impl Into<String>) -> Violation {
    Violation {
        rule,
        site: site.into(),
        detail: detail.into(),
    }
}

fn lenenc_prefix(n: u64) -> u64 {
    if n < 251 {
        1
    } else if n <= 0xFFFF {
        3
    } else if n <= 0xFF_FFFF {
        4
    } else {
        9
    }
}

// ------------------------------------------------------------------------------------------
// C04 — outbound framing of giant messages

pub struct C04;

/// byte-cell lengths whose lenenc encodings add up to exactly `target` bytes
fn split_cells(r: &mut Rng, target: u64, ncells: usize) -> Option<Vec<u64>> {
    let mut lens = Vec::new();
    let mut used = 0u64;
    for _ in 0..ncells.saturating_sub(1) {
        let l = match r.below(5) {
            0 => r.below(4),
            1 => 248 + r.below(8),
            2 => 65_530 + r.below(12),
            3 => r.below(70_000),
            _ => r.below(3_000_000),
        };
        if used + l + lenenc_prefix(l) + 10 >= target {
            break;
        }
        used += l + lenenc_prefix(l);
        lens.push(l);
    }
    let rest = target - used;
    // last cell absorbs the rest: find l with l + prefix(l) == rest
    for pfx in [1u64, 3, 4, 9] {
        if rest >= pfx {
            let l = rest - pfx;
            if lenenc_prefix(l) == pfx {
                lens.push(l);
                // shuffle position of the big one
                let n = lens.len();
                let i = r.usize_below(n);
                lens.swap(i, n - 1);
                return Some(lens);
            }
        }
    }
    None
}

/// A text row in which a typed (non-blob) cell straddles the 2^24-1 packet boundary: a blob
/// sized so that only `j` bytes of the next cell's text fit into the first packet.
pub fn gen_straddle_plan(r: &mut Rng, ints_only: bool) -> Plan {
    let cell = loop {
        let c = if ints_only {
            match r.below(10) {
                0 => Cell::U8(int_edge(r, 100, 255) as u8),
                1 => Cell::I8(int_edge(r, -128, -100) as i8),
                2 => Cell::U16(int_edge(r, 1000, 65_535) as u16),
                3 => Cell::I16(int_edge(r, -32_768, -1000) as i16),
                4 => Cell::U32(int_edge(r, 1 << 20, u32::MAX as i128) as u32),
                5 => Cell::I32(int_edge(r, i32::MIN as i128, -(1 << 20)) as i32),
                6 => Cell::U64(int_edge(r, 1 << 40, u64::MAX as i128) as u64),
                7 => Cell::I64(int_edge(r, i64::MIN as i128, -(1 << 40)) as i64),
                8 => Cell::Usize(int_edge(r, 1 << 40, u64::MAX as i128) as u64),
                _ => Cell::Myc(MycV::Int(int_edge(r, i64::MIN as i128, -(1 << 40)) as i64)),
            }
        } else {
            gen_cell_text(r, false)
        };
        if !matches!(c, Cell::Null(_) | Cell::Myc(MycV::Null) | Cell::Ref(_) | Cell::Bytes(_) | Cell::VecBytes(_)) {
            break c;
        }
    };
    let k = if r.chance(4, 5) { 1u64 } else { 2 };
    let j = match r.below(3) {
        0 => r.below(3),
        1 => r.below(9),
        _ => r.below(24),
    };
    // encoded blob = 4-byte length prefix + X bytes (X in 65536..2^24-1), or 9 + X beyond
    let before = k * U24 - 1 - j; // bytes of the row that precede the typed cell's text
    let x = if before - 4 <= 0xFF_FFFF { before - 4 } else { before - 9 };
    let cols: Vec<ColSpec> = (0..3)
        .map(|_| ColSpec {
            table: Blob::lit(b"t"),
            name: Blob::lit(b"c"),
            coltype: 0xfc,
            flags: 0,
        })
        .collect();
    let big = vec![
        Cell::Bytes(Blob::Gen {
            len: x as u32,
            salt: r.next() as u32,
            ascii: false,
        }),
        cell,
        Cell::Str(Blob::lit(b"after")),
    ];
    let small = vec![Cell::Null(0), Cell::I32(7), Cell::Str(Blob::lit(b"next row"))];
    let mut p = Plan::basic(vec![
        Cmd {
            seq: 0,
            kind: CmdKind::Query(Blob::lit(b"straddle")),
            act: Act::Program(Program {
                units: vec![Unit::Rows(RowsUnit {
                    cols,
                    rows: vec![big, small],
                    write_row: r.coin(),
                    last_row_ended: r.coin(),
                    close: Close::Finish,
                    contra: None,
                    recover: None,
                })],
                end: End::Implicit,
                ret_err: None,
                probe_cells: false,
                pull_params: None,
                pull_skip: 0,
                mixed_rows: 0,
                ret_panic: false,
            }),
        },
        Cmd {
            seq: 0,
            kind: CmdKind::Ping,
            act: Act::None,
        },
    ]);
    p.writes.accept = match r.below(3) {
        0 => vec![0],
        1 => vec![65_536],
        _ => vec![7, 0],
    };
    p
}

/// for C09: a giant column definition (variant 9 of the C04 generator)
pub fn gen_c04_giant_definition(r: &mut Rng) -> Plan {
    gen_c04(r, Tier::Quick, 9)
}

/// for C13: an error reported (finish_error) behind a giant row that the shim left open
pub fn gen_c04_error_after_open_giant_row(r: &mut Rng) -> Plan {
    for _ in 0..200 {
        // job numbers 0..=4 are the text-row variants
        let j = r.below(5);
        let p = gen_c04(r, Tier::Quick, j);
        let hit = p.cmds.iter().any(|c| {
            matches!(&c.act, Act::Program(pg) if pg.units.iter().any(|u| matches!(u, Unit::Rows(ru) if matches!(ru.close, Close::FinishError { .. }))))
        });
        if hit {
            return p;
        }
    }
    gen_c04(r, Tier::Quick, 0)
}

/// for C03: a giant text record that is refused (one value short) by a shim that carries on
pub fn gen_c04_refused_giant(r: &mut Rng) -> Plan {
    for _ in 0..400 {
        let j = r.below(5);
        let p = gen_c04(r, Tier::Quick, j);
        // what is written of the refused record (all cells but the last) must fill at least one
        // packet, which has left by the time of the refusal, and a row must follow it
        let hit = p.cmds.iter().any(|c| {
            matches!(&c.act, Act::Program(pg) if pg.units.iter().any(|u| match u {
                Unit::Rows(ru) if ru.recover.is_some() => match ru.contra {
                    Some(Contra::TooFewCols { row }) => {
                        let cells = &ru.rows[row as usize];
                        let written: u64 = cells[..cells.len() - 1]
                            .iter()
                            .map(|c| match c {
                                Cell::Bytes(b) | Cell::VecBytes(b) => b.len() as u64,
                                _ => 0,
                            })
                            .sum();
                        written > U24 + 16 && (row as usize) + 1 < ru.rows.len() && matches!(ru.close, Close::Finish)
                    }
                    _ => false,
                },
                _ => false,
            }))
        });
        if hit {
            return p;
        }
    }
    gen_c04(r, Tier::Quick, 0)
}

pub fn gen_c04_plan(r: &mut Rng, tier: Tier, job: u64) -> Plan {
    gen_c04(r, tier, job)
}

fn gen_c04(r: &mut Rng, tier: Tier, job: u64) -> Plan {
    gen_c04_inner(r, tier, job, None)
}

/// for C07: a binary row whose packet payload is exactly k * (2^24-1) bytes, k = 2 or 3
pub fn gen_c04_binary_exact_multiple(r: &mut Rng) -> Plan {
    let k = 2 + r.below(2);
    let v = 5 + r.below(3);
    gen_c04_inner(r, Tier::Quick, v, Some((k, 0)))
}

fn gen_c04_inner(r: &mut Rng, tier: Tier, job: u64, force: Option<(u64, i64)>) -> Plan {
    let k = match r.weighted(&[60, 30, 10]) {
        0 => 1u64,
        1 => 2,
        _ => 3,
    };
    let k = force.map(|f| f.0).unwrap_or(k);
    // one text job in five leaves the giant row as the last one, written cell by cell and not
    // ended by the shim (finish()/drop ends it) -- mostly at the exact multiple
    let open_last = r.chance(1, 5);
    // one row job in three puts small rows in front of the giant one, as many as it takes for the
    // sequence id of its last full packet to be 255, 0 or 254: the id wraps right where the
    // terminating (possibly empty) packet is owed
    let align: Option<u8> = if r.chance(1, 3) { Some(*r.pick(&[255u8, 255, 255, 0, 254])) } else { None };
    let d: i64 = if r.chance(1, 4) || (open_last && r.chance(3, 4)) || (align.is_some() && r.chance(2, 3)) { 0 } else { r.irange(-6, 6) };
    let d = force.map(|f| f.1).unwrap_or(d);
    let target = (k * U24) as i64 + d; // logical message length
    let variant = if tier == Tier::Thorough { r.below(12) } else { job % 12 };
    if variant >= 10 {
        return gen_straddle_plan(r, false);
    }
    let mut cmds = Vec::new();
    let small_row_text = vec![Cell::Str(Blob::lit(b"after"))];
    match variant {
        0..=4 => {
            // text row
            let mut ncells = 1 + r.usize_below(6);
            let lens = loop {
                if let Some(l) = split_cells(r, target as u64, ncells) {
                    break l;
                }
                // some totals cannot be met by a single length-encoded string
                ncells = 2 + r.usize_below(5);
            };
            let cols: Vec<ColSpec> = lens
                .iter()
                .map(|_| ColSpec {
                    table: Blob::lit(b"t"),
                    name: Blob::lit(b"c"),
                    coltype: 0xfc,
                    flags: 0,
                })
                .collect();
            let big: Vec<Cell> = lens
                .iter()
                .map(|l| {
                    let b = Blob::Gen {
                        len: *l as u32,
                        salt: r.next() as u32,
                        ascii: false,
                    };
                    if r.coin() {
                        Cell::Bytes(b)
                    } else {
                        Cell::VecBytes(b)
                    }
                })
                .collect();
            let mut second = vec![Cell::Null(0); lens.len()];
            second[0] = small_row_text[0].clone();
            // the giant row first, in the middle, or last (then possibly left for finish() /
            // drop to end: the terminating empty packet of an exact multiple is owed all the same)
            let mut rows = match if open_last { 2 } else { r.below(3) } {
                0 => vec![big, second],
                1 => vec![second.clone(), big, second],
                _ => vec![second, big],
            };
            let mut aligned = false;
            if let Some(want) = align {
                let full = target as u64 / U24;
                if full >= 1 {
                    // ids of a COM_QUERY response: count 1, definitions 2..=1+n, EOF 2+n, rows from 3+n
                    let pos = rows.iter().position(|rw| rw.iter().any(|c| matches!(c, Cell::Bytes(Blob::Gen { .. }) | Cell::VecBytes(Blob::Gen { .. })))).unwrap_or(0) as u64;
                    let last_full = 3 + lens.len() as u64 + pos + full - 1;
                    let lead = (want as u64 + 512 - last_full % 256) % 256;
                    let filler = rows.iter().find(|rw| !rw.iter().any(|c| matches!(c, Cell::Bytes(Blob::Gen { .. }) | Cell::VecBytes(Blob::Gen { .. })))).cloned();
                    if let Some(f) = filler {
                        for _ in 0..lead {
                            rows.insert(0, f.clone());
                        }
                        aligned = true;
                    }
                }
            }
            // one job in ten: the giant record is one value short, is refused, and the shim skips
            // it and carries on (if the tree lets it, the client is owed the other rows intact --
            // full packets of the refused row have long left by then)
            let skip_giant = !open_last && lens.len() >= 2 && r.chance(1, 10);
            let giant_at = rows.iter().position(|rw| rw.iter().any(|c| matches!(c, Cell::Bytes(Blob::Gen { .. }) | Cell::VecBytes(Blob::Gen { .. })))).unwrap_or(0) as u32;
            cmds.push(Cmd {
                seq: if aligned {
                    0
                } else {
                    let c = r.coin();
                    gen_seq(r, c)
                },
                kind: CmdKind::Query(Blob::lit(b"giant text row")),
                act: Act::Program(Program {
                    units: vec![Unit::Rows(RowsUnit {
                        cols,
                        rows,
                        write_row: skip_giant || (!open_last && r.coin()),
                        last_row_ended: skip_giant || (!open_last && r.coin()),
                        close: match r.below(if open_last { 4 } else { 3 }) {
                            0 | 1 => Close::Finish,
                            2 => Close::Drop,
                            // the shim reports an error behind the open giant row
                            _ => Close::FinishError {
                                kind: gen_errkind(r),
                                msg: gen_errmsg(r),
                            },
                        },
                        contra: if skip_giant { Some(Contra::TooFewCols { row: giant_at }) } else { None },
                        recover: if skip_giant { Some((crate::model::CARRY_ON, Blob::lit(b""))) } else { None },
                    })],
                    end: End::Implicit,
                    ret_err: None,
                    probe_cells: false,
                    pull_params: None,
                    pull_skip: 0,
                    mixed_rows: 0,
                    ret_panic: false,
                }),
            });
        }
        5..=7 => {
            // binary row: header(1) + bitmap + cells
            let mut ncells = 1 + r.usize_below(5);
            let lens = loop {
                let bitmap = (ncells as u64 + 7 + 2) / 8;
                if let Some(l) = split_cells(r, (target as u64).saturating_sub(1 + bitmap), ncells) {
                    if l.len() == ncells {
                        break l;
                    }
                }
                ncells = 2 + r.usize_below(4);
            };
            let cols: Vec<ColSpec> = lens
                .iter()
                .map(|_| ColSpec {
                    table: Blob::lit(b"t"),
                    name: Blob::lit(b"c"),
                    coltype: *r.pick(&[0xfcu8, 0xfd, 0xfb, 0xfe]),
                    flags: 0,
                })
                .collect();
            let big: Vec<Cell> = lens
                .iter()
                .map(|l| {
                    Cell::Bytes(Blob::Gen {
                        len: *l as u32,
                        salt: r.next() as u32,
                        ascii: false,
                    })
                })
                .collect();
            let mut second = vec![Cell::Null(0); lens.len()];
            second[0] = Cell::Bytes(Blob::lit(b"after"));
            let mut rows = vec![big, second.clone()];
            let mut aligned = false;
            if let Some(want) = align {
                let full = target as u64 / U24;
                if full >= 1 {
                    let last_full = 3 + lens.len() as u64 + full - 1;
                    let lead = (want as u64 + 512 - last_full % 256) % 256;
                    for _ in 0..lead {
                        rows.insert(0, second.clone());
                    }
                    aligned = true;
                }
            }
            cmds.push(Cmd {
                seq: 0,
                kind: CmdKind::Prepare(Blob::lit(b"p")),
                act: Act::Prepare(PrepAct::Reply {
                    id: 1,
                    params: vec![],
                    cols: cols.clone(),
                }),
            });
            cmds.push(Cmd {
                seq: if aligned {
                    0
                } else {
                    let c = r.coin();
                    gen_seq(r, c)
                },
                kind: CmdKind::Execute {
                    stmt: 1,
                    flags: 0,
                    iters: 1,
                    block: ParamBlock {
                        bind: None,
                        values: vec![],
                        raw: None,
                    stale_types: None,
                    },
                },
                act: Act::Program(Program {
                    units: vec![Unit::Rows(RowsUnit {
                        cols,
                        rows,
                        write_row: r.coin(),
                        last_row_ended: true,
                        close: Close::Finish,
                        contra: None,
                        recover: None,
                    })],
                    end: End::Implicit,
                    ret_err: None,
                    probe_cells: false,
                    pull_params: None,
                    pull_skip: 0,
                    mixed_rows: 0,
                    ret_panic: false,
                }),
            });
        }
        8 => {
            // giant ERR message: 1 + 2 + 1 + 5 + msg
            let msg_len = (target - 9).max(0) as u32;
            cmds.push(Cmd {
                seq: 0,
                kind: CmdKind::Query(Blob::lit(b"giant err")),
                act: Act::Program(Program {
                    units: vec![],
                    end: End::Error {
                        kind: gen_errkind(r),
                        msg: Blob::Gen {
                            len: msg_len,
                            salt: r.next() as u32,
                            ascii: false,
                        },
                    },
                    ret_err: None,
                    probe_cells: false,
                    pull_params: None,
                    pull_skip: 0,
                    mixed_rows: 0,
                    ret_panic: false,
                }),
            });
        }
        _ => {
            // giant column definition: packet = 4+1+1+prefix(table)+1+prefix(name)+name+1+13; the
            // bulk sits in the column name, in the table name, or is shared by both (the packet
            // boundary then falls inside either), in a resultset header or in a PREPARE reply
            let bulk = (target - 30).max(0) as u32 + r.below(12) as u32;
            let big = |r: &mut Rng, len: u32| Blob::Gen {
                len,
                salt: r.next() as u32,
                ascii: true,
            };
            let (table, name) = match r.below(4) {
                0 | 1 => (Blob::lit(b"t"), big(r, bulk)),
                2 => (big(r, bulk), Blob::lit(b"c")),
                _ => {
                    let a = bulk / 2 - 100 + r.below(200) as u32;
                    (big(r, a), big(r, bulk - a))
                }
            };
            let col = ColSpec {
                table,
                name,
                coltype: 0xfd,
                flags: r.next() as u16,
            };
            let other = ColSpec {
                table: Blob::lit(b"t"),
                name: Blob::lit(b"after"),
                coltype: 0x03,
                flags: 0,
            };
            if r.chance(1, 3) {
                // PREPARE reply: the giant definition among the parameters or the columns
                let (params, cols) = if r.coin() { (vec![other.clone(), col], vec![other]) } else { (vec![other.clone()], vec![col, other]) };
                cmds.push(Cmd {
                    seq: 0,
                    kind: CmdKind::Prepare(Blob::lit(b"giant definition")),
                    act: Act::Prepare(PrepAct::Reply { id: 77, params, cols }),
                });
            } else {
                cmds.push(Cmd {
                    seq: 0,
                    kind: CmdKind::Query(Blob::lit(b"giant coldef")),
                    act: Act::Program(Program {
                        units: vec![Unit::Rows(RowsUnit {
                            cols: vec![col],
                            rows: vec![vec![Cell::Str(Blob::lit(b"x"))]],
                            write_row: true,
                            last_row_ended: true,
                            close: Close::Finish,
                            contra: None,
                            recover: None,
                        })],
                        end: End::Implicit,
                        ret_err: None,
                        probe_cells: false,
                        pull_params: None,
                        pull_skip: 0,
                        mixed_rows: 0,
                        ret_panic: false,
                    }),
                });
            }
        }
    }
    cmds.push(Cmd {
        seq: 0,
        kind: CmdKind::Ping,
        act: Act::None,
    });
    let mut p = Plan::basic(cmds);
    if r.coin() {
        // whatever the client announced in its handshake (capabilities, max_packet_size, ...)
        // must not change the framing of what the server sends
        p.handshake = gen_handshake(r);
    }
    p.arrival = if r.coin() { Arrival::lockstep() } else { Arrival::upfront() };
    // write schedule: short writes that do not explode the operation count
    p.writes.accept = match r.below(7) {
        0 => vec![0],
        1 => vec![1, 0],
        2 => vec![7, 4096, 0],
        3 => vec![65_536],
        4 => vec![1 << 20],
        5 => vec![(1 << 24) - 1],
        _ => vec![1 + r.below(5_000_000) as u32, 0, 3],
    };
    if r.coin() {
        for _ in 0..1 + r.below(4) {
            p.writes.eintr_at.push(r.below(40) as u32);
        }
        p.writes.eintr_at.sort_unstable();
        p.writes.eintr_at.dedup();
    }
    p
}

/// Framing under TLS: rows from a few bytes up to several hundred KiB (beyond a TLS record and
/// beyond rustls' 64 KiB send buffer) over a transport with short writes, and in half of the
/// runs a burst of 1..3 consecutive transport calls failing with Interrupted somewhere after
/// the TLS handshake. Whatever the server makes of the burst --
/// retry or give up -- every byte the client gets to see must still be a prefix of the
/// well-framed conversation.
fn gen_c04_tls(r: &mut Rng) -> Plan {
    let mut cmds = Vec::new();
    let nq = 1 + r.usize_below(3);
    for _ in 0..nq {
        let binary = r.coin();
        let ncols = 1 + r.usize_below(3);
        let nrows = 1 + r.usize_below(3);
        let big_at = r.usize_below(ncols);
        let cols: Vec<ColSpec> = (0..ncols)
            .map(|_| ColSpec {
                table: Blob::lit(b"t"),
                name: Blob::lit(b"c"),
                coltype: 0xfc,
                flags: 0,
            })
            .collect();
        let rows: Vec<Vec<Cell>> = (0..nrows)
            .map(|_| {
                (0..ncols)
                    .map(|ci| {
                        let n = if ci == big_at {
                            match r.below(6) {
                                0 => r.usize_below(20),
                                1 => 16_000 + r.usize_below(800),
                                2 => 65_000 + r.usize_below(1200),
                                3 => 130_000 + r.usize_below(2000),
                                4 => 200_000 + r.usize_below(300_000),
                                _ => r.usize_below(70_000),
                            }
                        } else {
                            r.usize_below(12)
                        };
                        Cell::Bytes(blob_bytes(r, n))
                    })
                    .collect()
            })
            .collect();
        let unit = Unit::Rows(RowsUnit {
            cols,
            rows,
            write_row: r.coin(),
            last_row_ended: true,
            close: Close::Finish,
            contra: None,
            recover: None,
        });
        let prog = Program {
            units: vec![unit],
            end: End::Implicit,
            ret_err: None,
            probe_cells: false,
            pull_params: None,
            pull_skip: 0,
            mixed_rows: 0,
            ret_panic: false,
        };
        if binary {
            let id = 1 + cmds.len() as u32;
            cmds.push(Cmd {
                seq: 0,
                kind: CmdKind::Prepare(Blob::lit(b"p")),
                act: Act::Prepare(PrepAct::Reply {
                    id,
                    params: vec![],
                    cols: vec![],
                }),
            });
            cmds.push(Cmd {
                seq: 0,
                kind: CmdKind::Execute {
                    stmt: id,
                    flags: 0,
                    iters: 1,
                    block: ParamBlock {
                        bind: None,
                        values: vec![],
                        raw: None,
                        stale_types: None,
                    },
                },
                act: Act::Program(prog),
            });
        } else {
            cmds.push(Cmd {
                seq: 0,
                kind: CmdKind::Query(Blob::lit(b"rows over tls")),
                act: Act::Program(prog),
            });
        }
    }
    cmds.push(Cmd {
        seq: 0,
        kind: CmdKind::Ping,
        act: Act::None,
    });
    let mut p = Plan::basic(cmds);
    p.handshake.seq = 1;
    p.cfg.tls_offered = true;
    p.cfg.tls = Some(TlsClient {
        cert: false,
        v13: r.coin(),
        seed: r.next(),
        chain: 0,
        big_hello: false,
    });
    p.arrival = if r.coin() { Arrival::lockstep() } else { Arrival::upfront() };
    p.writes = WriteSched::all();
    p.writes.accept = match r.below(6) {
        0 => vec![0],
        1 => vec![5],
        2 => vec![1000, 64, 0],
        3 => vec![4096],
        4 => vec![16_384 + 5],
        _ => vec![1 + r.below(40_000) as u32, 0, 3],
    };
    if r.coin() {
        // the TLS handshake takes about 10..20 transport calls; aim behind it
        let at = 12 + r.below(120);
        let n = 1 + r.below(3);
        // only Interrupted: any other error is reported to the shim and by run_on, and what the
        // client sees after a reported transport error is not judged (C19 judges the report)
        let kind = IoKind::Interrupted;
        for i in 0..n {
            p.faults.push(Fault {
                at: FaultAt::Op(at + i),
                kind: FaultKind::Err(kind),
                persistent: false,
            });
        }
    }
    p
}

impl Check for C04 {
    fn id(&self) -> &'static str {
        "C04"
    }
    fn decided_by(&self) -> &'static str {
        "message sizes k*(2^24-1)+d x sequences of write sizes assembling the message x transport write schedule (short writes, EINTR); TLS x row sizes x Interrupted bursts"
    }
    fn rule_text(&self) -> &'static str {
        "one run = one QUERY or EXECUTE answered with a message of logical length L = k*(2^24-1)+d, k in {1,2,3}, d in [-6,+6]: a text or binary row assembled from 1..6 cells of varied sizes (so the packet layer sees different write-size sequences), a giant ERR message, or a giant column definition; followed by a short row, the terminator and a sentinel PING; transport accepts everything / 1 byte then all / 7,4096,all / 64 KiB / 1 MiB / 2^24-1 / seeded sizes per write, Interrupted at seeded write ops. Oracle: independent packet reader (header length == payload, nothing left over, messages >= 2^24-1 arrive as maximal packets + one shorter, possibly empty, packet), reassembled row decodes to exactly the written cells, following row / terminator / PING reply intact. Every other check's runs also pass the packet reader (rule 'framing'). After the giants: TLS conversations (12 000 quick / 300 000 thorough) with text and binary rows from a few bytes to 500 KB (beyond a TLS record and rustls' 64 KiB send buffer), short writes, and in half of them a burst of 1..3 consecutive transport calls failing with Interrupted after the TLS handshake; whatever the server makes of the burst (retry or give up), what the rustls client decrypts must be a prefix of the well-framed conversation. Distinct = plan signature (k, d via size classes, cell split, write schedule, TLS, faults)."
    }
    fn jobs(&self, tier: Tier) -> u64 {
        // the giants first, then the framing of ordinary and medium-sized messages under TLS
        match tier {
            Tier::Quick => 160 + 12_000,
            Tier::Thorough => 3000 + 300_000,
        }
    }
    fn budget_s(&self, tier: Tier) -> u64 {
        match tier {
            Tier::Quick => 60,
            Tier::Thorough => 900,
        }
    }
    fn run_job(&self, rng: &mut Rng, tier: Tier, job: u64, ctx: &mut JobCtx<'_>) {
        let giants = match tier {
            Tier::Quick => 160,
            Tier::Thorough => 3000,
        };
        let plan = if job < giants { gen_c04(rng, tier, job) } else { gen_c04_tls(rng) };
        ctx.eval(&plan);
    }
    fn owns(&self, rule: &str) -> bool {
        [
            "framing",
            "resp-malformed",
            "resp-shape",
            "resp-missing",
            "resp-extra-bytes",
            "text-value",
            "bin-value",
            "null-bitmap",
            "err-packet",
            "coldef",
            "api-call-failed",
            "panic",
            "end",
            "seq-ids",
        ]
        .contains(&rule)
    }
    fn assumptions(&self) -> Vec<&'static str> {
        super::props::COMMON_ASSUME_PUB.to_vec()
    }
    fn probes(&self) -> &'static [&'static str] {
        &["probe.outbound_msg_ge_16m"]
    }
}

// ------------------------------------------------------------------------------------------
// C15 — integer exactness

pub struct C15;

const INT_COLS: &[(u8, bool)] = &[
    (0x01, false),
    (0x01, true),
    (0x02, false),
    (0x02, true),
    (0x0d, false),
    (0x0d, true),
    (0x09, false),
    (0x09, true),
    (0x03, false),
    (0x03, true),
    (0x08, false),
    (0x08, true),
];

/// logical range of an integer column (INT24 is 24 bits wide logically): the reading with the
/// fewest obligations
fn logical_range(ct: u8, unsigned: bool) -> Option<(i128, i128)> {
    let bits = match ct {
        0x01 => 8,
        0x02 => 16,
        0x09 => 24,
        0x03 => 32,
        0x08 => 64,
        _ => return None, // YEAR: no obligation
    };
    Some(if unsigned {
        (0, (1i128 << bits) - 1)
    } else {
        (-(1i128 << (bits - 1)), (1i128 << (bits - 1)) - 1)
    })
}

fn type_range(c: &Cell) -> Option<(i128, i128)> {
    Some(match c {
        Cell::U8(_) => (0, u8::MAX as i128),
        Cell::I8(_) => (i8::MIN as i128, i8::MAX as i128),
        Cell::U16(_) => (0, u16::MAX as i128),
        Cell::I16(_) => (i16::MIN as i128, i16::MAX as i128),
        Cell::U32(_) => (0, u32::MAX as i128),
        Cell::I32(_) => (i32::MIN as i128, i32::MAX as i128),
        Cell::U64(_) => (0, u64::MAX as i128),
        Cell::I64(_) => (i64::MIN as i128, i64::MAX as i128),
        _ => return None,
    })
}

fn int_val(c: &Cell) -> Option<i128> {
    Some(match c {
        Cell::U8(x) => *x as i128,
        Cell::I8(x) => *x as i128,
        Cell::U16(x) => *x as i128,
        Cell::I16(x) => *x as i128,
        Cell::U32(x) => *x as i128,
        Cell::I32(x) => *x as i128,
        Cell::U64(x) => *x as i128,
        Cell::I64(x) => *x as i128,
        Cell::Usize(x) => *x as i128,
        Cell::Isize(x) => *x as i128,
        Cell::Myc(MycV::Int(x)) => *x as i128,
        Cell::Myc(MycV::UInt(x)) => *x as i128,
        _ => return None,
    })
}

pub fn must_accept(c: &Cell, ct: u8, unsigned: bool) -> bool {
    let Some((lo, hi)) = logical_range(ct, unsigned) else {
        return false;
    };
    match c {
        Cell::Usize(_) | Cell::Isize(_) => {
            let x = int_val(c).unwrap();
            x >= lo && x <= hi
        }
        Cell::Myc(_) => false,
        _ => match type_range(c) {
            Some((tlo, thi)) => tlo >= lo && thi <= hi,
            None => false,
        },
    }
}

fn mk_int_cell(ty: u8, x: i128) -> Cell {
    match ty {
        0 => Cell::U8(x as u8),
        1 => Cell::I8(x as i8),
        2 => Cell::U16(x as u16),
        3 => Cell::I16(x as i16),
        4 => Cell::U32(x as u32),
        5 => Cell::I32(x as i32),
        6 => Cell::U64(x as u64),
        7 => Cell::I64(x as i64),
        8 => Cell::Usize(x as u64),
        9 => Cell::Isize(x as i64),
        10 => Cell::Myc(MycV::Int(x as i64)),
        _ => Cell::Myc(MycV::UInt(x as u64)),
    }
}

fn ty_range(ty: u8) -> (i128, i128) {
    match ty {
        0 => (0, 255),
        1 => (-128, 127),
        2 => (0, 65_535),
        3 => (-32_768, 32_767),
        4 => (0, u32::MAX as i128),
        5 => (i32::MIN as i128, i32::MAX as i128),
        6 | 8 | 11 => (0, u64::MAX as i128),
        _ => (i64::MIN as i128, i64::MAX as i128),
    }
}

fn c15_plan(cells: Vec<(Cell, u8, bool)>, r: &mut Rng) -> Plan {
    // signedness is the UNSIGNED flag and nothing else: other flags a column may carry
    // (ZEROFILL, keys, AUTO_INCREMENT, NUM, ...; not NOT_NULL, rows may hold NULLs) come along
    // in a third of the runs
    let extra_pool: [u16; 8] = [0x40, 0x02, 0x04, 0x08, 0x200, 0x1000, 0x4000, 0x8000];
    let with_extra = r.chance(1, 3);
    let cols: Vec<ColSpec> = cells
        .iter()
        .map(|(_, ct, u)| {
            let mut flags: u16 = if *u { 0x20 } else { 0 };
            if with_extra {
                for _ in 0..1 + r.below(3) {
                    flags |= *r.pick(&extra_pool);
                }
            }
            ColSpec {
                table: Blob::lit(b"t"),
                name: Blob::lit(b"c"),
                coltype: *ct,
                flags,
            }
        })
        .collect();
    let row: Vec<Cell> = cells.into_iter().map(|c| c.0).collect();
    // sometimes an earlier row of the same resultset holds NULLs (and the same numbers in the
    // other columns): what one row did must not alter the numbers of the next
    let mut rows = Vec::new();
    if row.len() >= 2 && r.chance(1, 4) {
        let pre: Vec<Cell> = row
            .iter()
            .enumerate()
            .map(|(i, c)| if (i + row.len()) % 2 == 0 || i + 1 == row.len() { Cell::Null(1) } else { c.clone() })
            .collect();
        // the last cell of the real row may be a may-refuse one: keep the pre-row refusal-free
        rows.push(pre);
    }
    rows.push(row);
    let cmds = vec![
        Cmd {
            seq: 0,
            kind: CmdKind::Prepare(Blob::lit(b"p")),
            act: Act::Prepare(PrepAct::Reply {
                id: 1,
                params: vec![],
                cols: announce_cols(r, &cols),
            }),
        },
        Cmd {
            seq: 0,
            kind: CmdKind::Execute {
                stmt: 1,
                flags: 0,
                iters: 1,
                block: ParamBlock {
                    bind: None,
                    values: vec![],
                    raw: None,
                    stale_types: None,
                },
            },
            act: Act::Program(Program {
                units: vec![Unit::Rows(RowsUnit {
                    cols,
                    rows,
                    write_row: false,
                    last_row_ended: true,
                    close: Close::Finish,
                    contra: None,
                    recover: None,
                })],
                end: End::Implicit,
                ret_err: None,
                probe_cells: true,
                pull_params: None,
                pull_skip: 0,
                mixed_rows: 0,
                ret_panic: false,
            }),
        },
    ];
    let mut cmds = cmds;
    if r.chance(1, 4) {
        // history: the execution before this one returned a resultset with the same column
        // names and types but the opposite signedness in every column (and no rows). What the
        // connection remembers of it must not leak into how this one is advertised or encoded.
        let mut ghost = cmds[1].clone();
        if let Act::Program(pg) = &mut ghost.act {
            pg.probe_cells = false;
            if let Some(Unit::Rows(ru)) = pg.units.first_mut() {
                for c in &mut ru.cols {
                    c.flags ^= 0x20;
                }
                ru.rows.clear();
            }
        }
        cmds.insert(1, ghost);
    }
    let mut p = Plan::basic(cmds);
    p.reads = gen_reads(r);
    p
}

/// value list for a (type, column) pair: range bounds of the column +-1, powers of two +-1
fn edge_values(r: &mut Rng, ty: u8, ct: u8, unsigned: bool, n: usize) -> Vec<i128> {
    let (tlo, thi) = ty_range(ty);
    let mut out = Vec::new();
    if let Some((lo, hi)) = int_range(ct, unsigned) {
        for b in [lo, hi] {
            for d in [-1i128, 0, 1] {
                out.push(b + d);
            }
        }
    }
    while out.len() < n {
        out.push(int_edge(r, tlo, thi));
    }
    out.retain(|x| *x >= tlo && *x <= thi);
    out
}

/// Text protocol: rows of integers written with write_row; one record is too short and is
/// refused; the shim skips it and carries on. If the tree lets it carry on, the integers of the
/// accepted rows must arrive as themselves (not shifted by what the refused row left behind).
pub fn gen_c15_text_carry_on(r: &mut Rng) -> Plan {
    let ncols = 2 + r.usize_below(3);
    let nrows = 2 + r.usize_below(4);
    let cols: Vec<ColSpec> = (0..ncols)
        .map(|_| {
            let c = *r.pick(INT_COLS);
            ColSpec {
                table: Blob::lit(b"t"),
                name: Blob::lit(b"c"),
                coltype: c.0,
                flags: if c.1 { 0x20 } else { 0 },
            }
        })
        .collect();
    let rows: Vec<Vec<Cell>> = (0..nrows)
        .map(|_| (0..ncols).map(|_| Cell::I64(int_edge(r, i64::MIN as i128, i64::MAX as i128) as i64)).collect())
        .collect();
    let bad = r.usize_below(nrows) as u32;
    let unit = RowsUnit {
        cols,
        rows,
        write_row: true,
        last_row_ended: true,
        close: if r.coin() { Close::Finish } else { Close::FinishOne },
        contra: Some(Contra::TooFewCols { row: bad }),
        recover: Some((crate::model::CARRY_ON, Blob::lit(b""))),
    };
    let end = if unit.close == Close::FinishOne { End::NoMoreResults } else { End::Implicit };
    let cmds = vec![
        Cmd {
            seq: 0,
            kind: CmdKind::Query(Blob::lit(b"select ints")),
            act: Act::Program(Program {
                units: vec![Unit::Rows(unit)],
                end,
                ret_err: None,
                probe_cells: false,
                pull_params: None,
                pull_skip: 0,
                mixed_rows: 0,
                ret_panic: false,
            }),
        },
        Cmd {
            seq: 0,
            kind: CmdKind::Ping,
            act: Act::None,
        },
    ];
    let mut p = Plan::basic(cmds);
    p.reads = gen_reads(r);
    p
}

/// Binary protocol: rows of integers written in two steps (leading values with write_col, the
/// rest of the record with write_row): every call succeeds, so the client must decode exactly
/// the integers written.
pub fn gen_c15_mixed_rows(r: &mut Rng) -> Plan {
    let ncols = 2 + r.usize_below(4);
    let nrows = 1 + r.usize_below(3);
    let cols: Vec<ColSpec> = (0..ncols)
        .map(|_| ColSpec {
            table: Blob::lit(b"t"),
            name: Blob::lit(b"c"),
            coltype: 0x08,
            flags: 0,
        })
        .collect();
    let rows: Vec<Vec<Cell>> = (0..nrows)
        .map(|_| (0..ncols).map(|_| Cell::I64(int_edge(r, i64::MIN as i128, i64::MAX as i128) as i64)).collect())
        .collect();
    let unit = RowsUnit {
        cols: cols.clone(),
        rows,
        write_row: true,
        last_row_ended: true,
        close: Close::Finish,
        contra: None,
        recover: None,
    };
    let cmds = vec![
        Cmd {
            seq: 0,
            kind: CmdKind::Prepare(Blob::lit(b"p")),
            act: Act::Prepare(PrepAct::Reply {
                id: 1,
                params: vec![],
                cols,
            }),
        },
        Cmd {
            seq: 0,
            kind: CmdKind::Execute {
                stmt: 1,
                flags: 0,
                iters: 1,
                block: ParamBlock {
                    bind: None,
                    values: vec![],
                    raw: None,
                    stale_types: None,
                },
            },
            act: Act::Program(Program {
                units: vec![Unit::Rows(unit)],
                end: End::Implicit,
                ret_err: None,
                probe_cells: false,
                pull_params: None,
                pull_skip: 0,
                mixed_rows: 1 + r.below(ncols as u64 - 1) as u8,
                ret_panic: false,
            }),
        },
    ];
    let mut p = Plan::basic(cmds);
    p.reads = gen_reads(r);
    p
}

/// The seeded C15 plan: several integer cells that must be accepted, then possibly one that may be
/// refused (Err or panic), each written through a probed write_col. Also run by C07 (binary rows).
pub fn gen_c15_seeded(rng: &mut Rng) -> Plan {
    // seeded: several must-accept cells, then possibly one may-refuse cell
    let mut cells = Vec::new();
    let n_must = rng.usize_below(12);
    let mut guard = 0;
    while cells.len() < n_must && guard < 200 {
        guard += 1;
        let ty = rng.below(10) as u8;
        let col = *rng.pick(INT_COLS);
        let (tlo, thi) = ty_range(ty);
        let x = if ty >= 8 {
            // pointer-sized: pick a value inside the column's logical range when possible
            match logical_range(col.0, col.1) {
                Some((lo, hi)) => int_edge(rng, lo.max(tlo), hi.min(thi)),
                None => continue,
            }
        } else {
            int_edge(rng, tlo, thi)
        };
        let cell = mk_int_cell(ty, x);
        if must_accept(&cell, col.0, col.1) {
            cells.push((cell, col.0, col.1));
        }
    }
    if rng.chance(3, 4) {
        let ty = rng.below(12) as u8;
        let col = *rng.pick(INT_COLS);
        let vals = edge_values(rng, ty, col.0, col.1, 8);
        if !vals.is_empty() {
            let x = *rng.pick(&vals);
            cells.push((mk_int_cell(ty, x), col.0, col.1));
        }
    }
    if cells.is_empty() {
        cells.push((Cell::I64(0), 0x08, false));
    }
    c15_plan(cells, rng)
}

/// C15's oracle, for checks that run its plans as well
pub fn c15_extra_judge(plan: &Plan, out: &Outcome, vs: &mut Vec<Violation>) {
    C15.extra_judge(plan, out, vs)
}

impl C15 {
    /// sweep space of the 8-bit (quick) and 16-bit (thorough) types: job -> (type, column, chunk)
    fn sweep_jobs(tier: Tier) -> u64 {
        match tier {
            // 2 types x 12 columns, 256 values: one run per (type, column) when must-accept,
            // one run per value otherwise: bounded by 2*12*256
            Tier::Quick => 2 * 12 * 256,
            Tier::Thorough => 2 * 12 * 256 + 2 * 12 * 65_536 / 64,
        }
    }
}

impl Check for C15 {
    fn id(&self) -> &'static str {
        "C15"
    }
    fn decided_by(&self) -> &'static str {
        "inputs (Rust integer type x column type x signedness x value): 8-bit types swept completely (quick), 16-bit types swept (thorough), wider types at range bounds/powers of two and uniformly"
    }
    fn rule_text(&self) -> &'static str {
        "one run = PREPARE + EXECUTE answered by one binary row of integer cells, each written through write_col under catch_unwind with its status (Ok/Err/Panic) logged; must-accept cells (column's logical range contains the whole range of the fixed-width Rust type; for usize/isize: contains the value) are packed many per run, may-refuse cells come last (a refusal ends the run). Oracle: every must-accept cell is Ok; every accepted cell decodes (width and signedness from the advertised column) to the same mathematical integer; a refusal may be Err or panic. In a quarter of the runs the statement was executed once before, with the same column names and types, the opposite signedness and no rows (nothing remembered from it may change how the probe is advertised or encoded). Sweeps: (u8,i8) x 12 column kinds x all 256 values in quick, (u16,i16) x 12 x all 65536 values in thorough. Distinct = plan signature."
    }
    fn jobs(&self, tier: Tier) -> u64 {
        C15::sweep_jobs(tier)
            + match tier {
                Tier::Quick => 600_000,
                Tier::Thorough => 10_000_000,
            }
    }
    fn run_job(&self, rng: &mut Rng, tier: Tier, job: u64, ctx: &mut JobCtx<'_>) {
        let sweep8 = 2 * 12 * 256;
        if job < sweep8 {
            // 8-bit sweep: job = ((ty * 12) + col) * 256 + value index
            let ty = (job / (12 * 256)) as u8; // 0 = u8, 1 = i8
            let col = INT_COLS[((job / 256) % 12) as usize];
            let vi = (job % 256) as i128;
            let x = if ty == 0 { vi } else { vi - 128 };
            let cell = mk_int_cell(ty, x);
            ctx.stats.bump("sweep.cells_8bit", 1);
            let plan = c15_plan(vec![(cell, col.0, col.1)], rng);
            ctx.eval(&plan);
            return;
        }
        if job < C15::sweep_jobs(tier) {
            // 16-bit sweep (thorough): 64 values per run, each in its own run-ending order:
            // must-accept columns take all 64 in one row, others one cell per sub-run
            let j = job - sweep8;
            let ty = 2 + (j / (12 * 1024)) as u8; // 2 = u16, 3 = i16
            let col = INT_COLS[((j / 1024) % 12) as usize];
            let chunk = (j % 1024) as i128;
            let probe = mk_int_cell(ty, 0);
            let must = must_accept(&probe, col.0, col.1);
            let vals: Vec<i128> = (0..64)
                .map(|i| {
                    let vi = chunk * 64 + i;
                    if ty == 2 {
                        vi
                    } else {
                        vi - 32_768
                    }
                })
                .collect();
            ctx.stats.bump("sweep.cells_16bit", 64);
            if must {
                let cells = vals.iter().map(|x| (mk_int_cell(ty, *x), col.0, col.1)).collect();
                let plan = c15_plan(cells, rng);
                ctx.eval(&plan);
            } else {
                for x in vals {
                    let plan = c15_plan(vec![(mk_int_cell(ty, x), col.0, col.1)], rng);
                    ctx.eval(&plan);
                }
            }
            return;
        }
        if job % 25 == 7 {
            let plan = gen_c15_mixed_rows(rng);
            ctx.stats.bump("probe.rows_written_in_two_steps", 1);
            ctx.eval(&plan);
            return;
        }
        if job % 25 == 19 {
            let plan = gen_c15_text_carry_on(rng);
            ctx.stats.bump("probe.text_rows_after_a_refused_row", 1);
            ctx.eval(&plan);
            return;
        }
        if job % 50_000 == 17 {
            // text protocol: the digits of an integer straddle the 2^24-1 packet boundary
            let plan = gen_straddle_plan(rng, true);
            ctx.stats.bump("probe.int_text_straddles_packet_boundary", 1);
            ctx.eval(&plan);
            return;
        }
        let plan = gen_c15_seeded(rng);
        ctx.eval(&plan);
    }
    fn owns(&self, rule: &str) -> bool {
        ["int-refused", "int-altered", "int-unaccounted", "resp-malformed", "text-value", "bin-value", "resp-shape"].contains(&rule)
    }
    fn extra_judge(&self, plan: &Plan, out: &Outcome, vs: &mut Vec<Violation>) {
        // locate the probe program
        let Some((ci, cmd)) = plan
            .cmds
            .iter()
            .enumerate()
            .find(|(_, c)| matches!(&c.act, Act::Program(p) if p.probe_cells))
        else {
            return;
        };
        let Act::Program(p) = &cmd.act else { return };
        let Some(Unit::Rows(ru)) = p.units.first() else { return };
        if ru.rows.is_empty() {
            return;
        }
        let stat = &out.w.cellstat;
        // a panic outside the probed calls is not a refusal
        if let RunEnd::Panic { loc, msg } = &out.end {
            vs.push(v(
                "int-unaccounted",
                crate::panichook::normalise(loc, msg),
                format!("panic outside a probed write_col: {} {}", loc, msg),
            ));
            return;
        }
        let ncells: usize = ru.rows.iter().map(|r| r.len()).sum();
        'rows: for (ri, row) in ru.rows.iter().enumerate() {
        for (i, cell) in row.iter().enumerate() {
            let col = &ru.cols[i];
            let unsigned = col.flags & 0x20 != 0;
            let st = stat.iter().find(|s| s.0 as usize == ri * 1_000 + i).map(|s| &s.1);
            match st {
                None => break 'rows, // run ended earlier (after a legitimate refusal)
                Some(CellStatus::Ok) => {}
                Some(other) => {
                    if matches!(cell, Cell::Null(_)) || must_accept(cell, col.coltype, unsigned) {
                        vs.push(v(
                            "int-refused",
                            format!("{} into {:#x} {}", cell_kind(cell), col.coltype, if unsigned { "unsigned" } else { "signed" }),
                            format!(
                                "cell #{}: {} value {} refused ({:?}) by column type {:#x} {} whose range contains it",
                                i,
                                cell_kind(cell),
                                int_val(cell).unwrap_or(0),
                                other,
                                col.coltype,
                                if unsigned { "unsigned" } else { "signed" }
                            ),
                        ));
                    }
                    return;
                }
            }
        }
        }
        // all cells accepted: every row must decode to the same integers
        let all_ok = stat.len() == ncells && stat.iter().all(|s| s.1 == CellStatus::Ok);
        if !all_ok {
            return;
        }
        match out.w.replies.get(ci + 1) {
            Some(Some(Ok(d))) => {
                if let DecResp::Units(us) = &d.resp {
                    if let Some(DecUnit::Rows { cols, rows, .. }) = us.first() {
                        if rows.len() == ru.rows.len() {
                            for (ri, (row, drow)) in ru.rows.iter().zip(rows).enumerate() {
                                let DecRow::Bin { cells, .. } = drow else { continue };
                                for (i, (c, g)) in row.iter().zip(cells).enumerate() {
                                    if let Err(m) = bin_match(c, &cols[i], g) {
                                        let unsigned = cols[i].flags & 0x20 != 0;
                                        vs.push(v(
                                            "int-altered",
                                            format!(
                                                "{} into {:#x} {}",
                                                cell_kind(c),
                                                cols[i].coltype,
                                                if unsigned { "unsigned" } else { "signed" }
                                            ),
                                            format!("row {} cell #{}: {}", ri, i, m),
                                        ));
                                        return;
                                    }
                                }
                            }
                            return;
                        }
                    }
                }
                vs.push(v("int-unaccounted", "reply shape", "accepted row not found in the reply"));
            }
            Some(Some(Err(m))) => vs.push(v("int-unaccounted", "reply malformed", m.clone())),
            _ => vs.push(v(
                "int-unaccounted",
                "reply missing",
                "all cells were accepted but no reply was decoded",
            )),
        }
    }
    fn assumptions(&self) -> Vec<&'static str> {
        vec![
            "verdict carried by seeded/swept input generation; the simulated connection is the vehicle and the independent binary-row decoder the oracle",
            "obligations use the logical range of each column type (TINY 8, SHORT 16, INT24 24, LONG 32, LONGLONG 64 bits; YEAR none): the reading with the fewest obligations",
            "a refusal may be an Err or a panic (the statement does not fix the mode); panics are counted, not flagged",
        ]
    }
}

// ------------------------------------------------------------------------------------------
// C19 — fault enumeration

pub struct C19;

fn gen_c19_conv(r: &mut Rng) -> Plan {
    let mut o = ConvOpts::std();
    o.max_cmds = 8;
    o.prog_text.max_rows = 3;
    o.prog_text.max_cols = 3;
    o.prog_text.max_units = 3;
    o.prog_bin = o.prog_text.clone();
    o.prog_bin.binary = true;
    o.quit_at_end = 40;
    let mut cmds = gen_conv(r, &o);
    // shim programs that return their own typed error at a seeded point
    if r.chance(1, 4) {
        let idxs: Vec<usize> = cmds
            .iter()
            .enumerate()
            .filter(|(_, c)| matches!(c.act, Act::Program(_)))
            .map(|(i, _)| i)
            .collect();
        if !idxs.is_empty() {
            let i = *r.pick(&idxs);
            if let Act::Program(p) = &mut cmds[i].act {
                let at = r.below(p.units.len() as u64 + 2) as u32;
                p.ret_err = Some((at, 0xE000_0000 | r.below(1 << 20) as u32));
            }
        } else if let Some(c) = cmds.iter_mut().find(|c| matches!(c.act, Act::Prepare(_))) {
            c.act = Act::Prepare(PrepAct::ReturnErr(0xE100_0000 | r.below(1 << 20) as u32));
        }
    }
    fix_long_data(&mut cmds);
    let mut p = Plan::basic(cmds);
    p.handshake = gen_handshake(r);
    if r.chance(1, 10) {
        p.cfg.auth_reject = Some(0xA000_0000 | r.below(1 << 20) as u32);
    }
    // a shim that leaves on_init to the library (its default answers OK): the library's own
    // writes are as fallible as the shim's
    if r.chance(1, 5) && p.cmds.iter().any(|c| matches!(c.kind, CmdKind::InitDb(_))) {
        p.cfg.default_on_init = true;
    }
    // moderate chunking so that conversations have a few hundred operations at most
    p.reads = match r.below(4) {
        0 => ReadSched::all(),
        1 => ReadSched {
            explicit: vec![],
            cuts: vec![],
            tail: Tail::Hash {
                seed: r.next(),
                max: 40,
            },
        },
        2 => ReadSched {
            explicit: vec![],
            cuts: vec![],
            tail: Tail::Fixed(4 + r.below(10) as u32),
        },
        _ => gen_reads(r),
    };
    if matches!(p.reads.tail, Tail::Fixed(1)) {
        p.reads.tail = Tail::Fixed(5);
    }
    p.arrival = gen_arrival(r);
    p.writes = gen_writes(r, false);
    if r.chance(1, 12) && matches!(p.handshake.body, HsBody::V41 { .. }) {
        // a TLS conversation: every fault then lands underneath rustls (or on the plaintext
        // greeting / SSLRequest); end-of-stream offsets are not enumerated for these
        let cert = r.coin();
        p.cfg.tls_offered = true;
        p.cfg.tls_require_cert = cert;
        p.cfg.tls = Some(TlsClient {
            cert,
            v13: r.coin(),
            seed: r.next(),
            chain: *r.pick(&[0u8, 0, 1, 2, 3]),
            big_hello: r.chance(1, 5),
        });
        p.handshake.seq = 1;
        if let HsBody::V41 { caps, .. } = &mut p.handshake.body {
            *caps &= !CLIENT_SSL;
        }
        p.writes = WriteSched::all();
        p.cmds.truncate(4);
    }
    p
}

fn gen_c19_dropped_writers(r: &mut Rng) -> Plan {
    let mut cmds = Vec::new();
    let n = 1 + r.usize_below(2);
    for _ in 0..n {
        let binary = r.coin();
        let ncols = 1 + r.usize_below(3);
        let nrows = 1 + r.usize_below(3);
        let cols: Vec<ColSpec> = (0..ncols)
            .map(|_| ColSpec {
                table: Blob::lit(b"t"),
                name: Blob::lit(b"c"),
                coltype: 0xfd,
                flags: 0,
            })
            .collect();
        let rows: Vec<Vec<Cell>> = (0..nrows).map(|i| (0..ncols).map(|j| Cell::Str(Blob::Lit(format!("r{}c{}", i, j).into_bytes()))).collect()).collect();
        let prog = Program {
            units: vec![Unit::Rows(RowsUnit {
                cols: cols.clone(),
                rows,
                write_row: false,
                last_row_ended: false,
                close: Close::Drop,
                contra: None,
                recover: None,
            })],
            end: End::Implicit,
            ret_err: None,
            probe_cells: false,
            pull_params: None,
            pull_skip: 0,
            mixed_rows: 0,
            ret_panic: false,
        };
        if binary {
            cmds.push(Cmd {
                seq: 0,
                kind: CmdKind::Prepare(Blob::lit(b"p")),
                act: Act::Prepare(PrepAct::Reply {
                    id: 2,
                    params: vec![],
                    cols,
                }),
            });
            cmds.push(Cmd {
                seq: 0,
                kind: CmdKind::Execute {
                    stmt: 2,
                    flags: 0,
                    iters: 1,
                    block: ParamBlock {
                        bind: None,
                        values: vec![],
                        raw: None,
                        stale_types: None,
                    },
                },
                act: Act::Program(prog),
            });
        } else {
            cmds.push(Cmd {
                seq: 0,
                kind: CmdKind::Query(Blob::lit(b"select dropped")),
                act: Act::Program(prog),
            });
        }
        cmds.push(Cmd {
            seq: 0,
            kind: CmdKind::Ping,
            act: Act::None,
        });
    }
    if r.coin() {
        cmds.push(Cmd {
            seq: 0,
            kind: CmdKind::Quit,
            act: Act::None,
        });
    }
    let mut p = Plan::basic(cmds);
    p.arrival = gen_arrival(r);
    p.writes = gen_writes(r, false);
    p
}

const ERR_KINDS: &[IoKind] = &[
    IoKind::ConnectionReset,
    IoKind::BrokenPipe,
    IoKind::ConnectionAborted,
    IoKind::TimedOut,
    IoKind::Other,
];

impl Check for C19 {
    fn id(&self) -> &'static str {
        "C19"
    }
    fn level(&self) -> &'static str {
        "fault_enumeration"
    }
    fn decided_by(&self) -> &'static str {
        "complete enumeration of fault points (every transport operation index, every client byte offset) over each sampled conversation"
    }
    fn rule_text(&self) -> &'static str {
        "one job = one seeded conversation (C03-style programs incl. drops, shim programs returning their own typed error, auth rejection); its fault-free run records N transport operations and B client bytes; then for EVERY k < N: a one-off error at operation k (kinds ConnectionReset/BrokenPipe/ConnectionAborted/TimedOut/Other rotating), a persistent error from operation k on, Interrupted at k, Ok(0) when k is a write; for EVERY k <= B: end of stream after k bytes. Oracle per faulted run: never a panic; a fault on an operation the server performed => run_on returns Err (Interrupted: Err or the fault-free outcome); EOF => Ok exactly when it falls on a command boundary after the handshake (or the client quit), Err otherwise; no shim callback starts after the failing operation; shim error tokens come back unchanged. evaluations counts faulted runs; distinct = plan signature (conversation x fault point x fault kind); exhaustive per conversation, sampled across conversations."
    }
    fn jobs(&self, tier: Tier) -> u64 {
        match tier {
            Tier::Quick => 150,
            Tier::Thorough => 3_000,
        }
    }
    fn budget_s(&self, tier: Tier) -> u64 {
        match tier {
            Tier::Quick => 60,
            Tier::Thorough => 900,
        }
    }
    fn run_job(&self, rng: &mut Rng, tier: Tier, job: u64, ctx: &mut JobCtx<'_>) {
        if job < if tier == Tier::Quick { 2 } else { 40 } {
            // a conversation with a multi-packet (>= 2^24-1 byte) request: end of stream and
            // read errors around every packet header / fragment boundary (these runs are too
            // large for a complete enumeration of byte offsets)
            let mut base = super::props::gen_giant_inbound(rng, 0);
            base.reads = ReadSched {
                explicit: vec![],
                cuts: vec![],
                tail: Tail::Fixed(4_194_304),
            };
            let (hdrs, total) = header_offsets(&base);
            ctx.stats.bump("enum.giant_conversations", 1);
            ctx.eval(&base);
            let mut p = base.clone();
            for h in &hdrs {
                for d in [-2i64, -1, 0, 1, 3, 4, 5] {
                    let k = *h as i64 + d;
                    if k < 0 || k as u64 > total {
                        continue;
                    }
                    p.faults = vec![Fault {
                        at: FaultAt::ClientByte(k as u64),
                        kind: FaultKind::Eof,
                        persistent: true,
                    }];
                    ctx.eval(&p);
                }
            }
            for n in 0..12u64 {
                p.faults = vec![Fault {
                    at: FaultAt::Read(n),
                    kind: FaultKind::Err(ERR_KINDS[(n as usize) % ERR_KINDS.len()]),
                    persistent: n % 2 == 0,
                }];
                ctx.eval(&p);
            }
            return;
        }
        let n_giant_in = if tier == Tier::Quick { 2 } else { 40 };
        if job >= n_giant_in && job < n_giant_in + if tier == Tier::Quick { 1 } else { 12 } {
            // a conversation whose reply is a message of >= 2^24-1 bytes: a fault at every
            // transport operation (the full-size packets are written by single large writes)
            let mut base = gen_c04_plan(rng, tier, 0);
            base.writes = WriteSched::all();
            base.arrival = Arrival::lockstep();
            let (out, _) = ctx.eval_out(&base);
            let n_ops = out.w.op;
            drop(out);
            ctx.stats.bump("enum.giant_reply_conversations", 1);
            let mut p = base.clone();
            for k in 0..n_ops.min(200) {
                for (kind, persistent) in [
                    (FaultKind::Err(ERR_KINDS[(k as usize) % ERR_KINDS.len()]), false),
                    (FaultKind::Err(ERR_KINDS[(k as usize + 1) % ERR_KINDS.len()]), true),
                ] {
                    p.faults = vec![Fault {
                        at: FaultAt::Op(k),
                        kind,
                        persistent,
                    }];
                    ctx.eval(&p);
                }
            }
            return;
        }
        let base = if job % 20 == 7 {
            // writers left to their destructors: the last row written cell by cell and not ended,
            // the row writer (and with it the result writer) simply dropped -- every transport
            // fault then lands in code that runs inside `Drop`
            gen_c19_dropped_writers(rng)
        } else if job % 5 == 4 {
            // the all-features conversation as the base (bounded so that the enumeration stays
            // small): faults then also land in recovering programs, many-packet replies, ...
            let mut b = loop {
                let b = super::sink::gen_sink(rng, tier, job);
                let big = b.cmds.len() > 10
                    || b.cmds.iter().any(|c| match &c.kind {
                        CmdKind::Query(t) | CmdKind::Prepare(t) | CmdKind::InitDb(t) => t.len() > 3000,
                        CmdKind::LongData { data, .. } => data.len() > 3000,
                        _ => false,
                    })
                    || b.cmds.iter().any(|c| matches!(&c.act, Act::Program(p) if p.units.iter().any(|u| matches!(u, Unit::Rows(r) if r.rows.len() > 12))));
                if !big {
                    break b;
                }
            };
            b.faults.clear();
            b.writes.eintr_at.clear();
            if matches!(b.reads.tail, Tail::Fixed(1)) {
                b.reads.tail = Tail::Fixed(9);
            }
            b
        } else {
            gen_c19_conv(rng)
        };
        let (out, _) = ctx.eval_out(&base);
        let n_ops = out.w.op;
        let n_bytes = out.w.cbytes.len() as u64;
        let tls_len = out.w.tls.as_ref().map(|t| t.out.len() as u64).unwrap_or(0);
        // op kinds of the fault-free run
        let mut kinds = vec![0u8; n_ops as usize];
        for e in &out.w.events {
            match e {
                Ev::Read { op, .. } | Ev::ReadEof { op } | Ev::ReadErr { op, .. } => kinds[*op as usize] = 1,
                Ev::Write { op, .. } | Ev::WriteErr { op, .. } => kinds[*op as usize] = 2,
                Ev::Flush { op } | Ev::FlushErr { op, .. } => kinds[*op as usize] = 3,
                _ => {}
            }
        }
        drop(out);
        // conversations with thousands of operations (many-row replies in the all-features
        // base) are enumerated with a stride; everything else completely
        let op_stride = (n_ops / 1500).max(1);
        let byte_stride = (n_bytes / 3000).max(1);
        if op_stride > 1 || byte_stride > 1 {
            ctx.stats.bump("enum.conversations_enumerated_with_stride", 1);
        }
        ctx.stats.bump("enum.conversations", 1);
        ctx.stats.bump("enum.fault_points_ops", n_ops);
        ctx.stats.bump("enum.fault_points_bytes", n_bytes + 1);
        let mut p = base.clone();
        for k in (0..n_ops).step_by(op_stride as usize) {
            let kind = ERR_KINDS[(k as usize) % ERR_KINDS.len()];
            p.faults = vec![Fault {
                at: FaultAt::Op(k),
                kind: FaultKind::Err(kind),
                persistent: false,
            }];
            ctx.eval(&p);
            p.faults[0].persistent = true;
            ctx.eval(&p);
            p.faults = vec![Fault {
                at: FaultAt::Op(k),
                kind: FaultKind::Err(IoKind::Interrupted),
                persistent: false,
            }];
            ctx.eval(&p);
            if kinds[k as usize] == 2 {
                p.faults = vec![Fault {
                    at: FaultAt::Op(k),
                    kind: FaultKind::ZeroWrite,
                    persistent: false,
                }];
                ctx.eval(&p);
            }
        }
        if base.cfg.tls.is_some() {
            // end of stream after every byte of the outer (wire) stream
            ctx.stats.bump("enum.tls_conversations", 1);
            ctx.stats.bump("enum.fault_points_tls_bytes", tls_len);
            for k in (0..tls_len).step_by((tls_len / 4000).max(1) as usize) {
                p.faults = vec![Fault {
                    at: FaultAt::ClientByte(k),
                    kind: FaultKind::Eof,
                    persistent: true,
                }];
                ctx.eval(&p);
            }
            // ... and an orderly close (close_notify) after every plaintext byte of the client's
            // script, from "right after the TLS handshake" on: Ok exactly at command boundaries
            // behind the handshake response, as over plaintext
            ctx.stats.bump("enum.fault_points_tls_clean_close", n_bytes + 1);
            for k in (0..=n_bytes).step_by(byte_stride as usize) {
                p.faults = vec![Fault {
                    at: FaultAt::TlsCleanClose(k),
                    kind: FaultKind::Eof,
                    persistent: true,
                }];
                ctx.eval(&p);
            }
            return;
        }
        for k in (0..=n_bytes).step_by(byte_stride as usize) {
            p.faults = vec![Fault {
                at: FaultAt::ClientByte(k),
                kind: FaultKind::Eof,
                persistent: true,
            }];
            ctx.eval(&p);
        }
        if job % 4 == 1 {
            // the same ending over a real socket, through `run_on_tcp`: the client sends the
            // first k bytes of its script, half-closes and goes on reading. The entry point must
            // return what `run_on` returns for an end of stream at that byte (rule `tcp-differs`).
            let mut q = base.clone();
            q.reads = ReadSched::all();
            q.arrival = Arrival::upfront();
            q.writes = WriteSched::all();
            q.cfg.tcp_diff = true;
            let (hdrs, total) = header_offsets(&base);
            let mut cuts: Vec<u64> = vec![0, 2, total];
            if hdrs.len() >= 2 {
                cuts.push(hdrs[1]); // right behind the handshake response
                cuts.push(hdrs[1] - 1);
                let h = hdrs[1 + rng.usize_below(hdrs.len() - 1)];
                cuts.push(h); // a command boundary
                cuts.push((h + 1 + rng.below(5)).min(total)); // inside a header or a payload
            }
            cuts.sort_unstable();
            cuts.dedup();
            for k in cuts {
                q.faults = vec![Fault {
                    at: FaultAt::ClientByte(k),
                    kind: FaultKind::Eof,
                    persistent: true,
                }];
                if crate::tcpdiff::eligible(&q) {
                    ctx.stats.bump("probe.tcp_half_closing_clients", 1);
                    ctx.eval(&q);
                }
            }
        }
    }
    fn owns(&self, rule: &str) -> bool {
        // callback-args / callback-extra: under a fault the callbacks that do happen must still
        // be a prefix of the fault-free history (missing ones are tolerated by the oracle); this
        // also covers a tree that chooses to retry an interrupted operation
        [
            "fault-panic",
            "fault-masked",
            "fault-callback-after",
            "fault-eof-verdict",
            "end",
            "fault-token",
            "callback-args",
            "callback-extra",
            "param-value",
            "param-type",
            "param-count",
        ]
        .contains(&rule)
    }
    fn extra_judge(&self, plan: &Plan, out: &Outcome, vs: &mut Vec<Violation>) {
        let w = &out.w;
        let Some(fop) = w.fault_fired else {
            // no fault reached: judged like any fault-free run ("end" covers tokens / Ok / Err)
            if let RunEnd::Panic { loc, msg } = &out.end {
                vs.push(v(
                    "fault-panic",
                    crate::panichook::normalise(loc, msg),
                    format!("panic without any fault: {} {}", loc, msg),
                ));
            }
            return;
        };
        let fault = &plan.faults[0];
        let fdesc = format!("{:?}{}", fault.kind, if fault.persistent { " persistent" } else { "" });
        if let RunEnd::Panic { loc, msg } = &out.end {
            vs.push(v(
                "fault-panic",
                crate::panichook::normalise(loc, msg),
                format!("{} at op {} -> panic at {}: {}", fdesc, fop, loc, msg),
            ));
            return;
        }
        // no callback may start after the failing operation (a retried Interrupted is not a
        // failure)
        // Interrupted and a zero-length write are not error reports: the caller may retry
        // (write_all retries the former, rustls retries both) or give up; either is fine
        let benign = matches!(fault.kind, FaultKind::Err(IoKind::Interrupted) | FaultKind::ZeroWrite);
        if let Some((op, cb)) = w.callbacks.iter().find(|(op, _)| *op > fop && !benign) {
            vs.push(v(
                "fault-callback-after",
                cb.kind().to_string(),
                format!("{} at op {}: callback {} started at op {}", fdesc, fop, cb.short(), op),
            ));
        }
        match &fault.kind {
            FaultKind::Eof => {
                // Ok exactly when the stream ended on a command boundary after the handshake
                let (k, clean) = match fault.at {
                    FaultAt::ClientByte(k) => (k as usize, false),
                    // an orderly TLS close after k plaintext bytes: judged like the end of a
                    // plaintext stream after k bytes
                    FaultAt::TlsCleanClose(k) => (k as usize, true),
                    _ => return,
                };
                if let (Some(t), false) = (&w.tls, clean) {
                    // TLS: the stream was cut before the client had sent everything (and its
                    // close_notify): a truncation, never a clean close
                    if !t.closed && matches!(out.end, RunEnd::Ok) {
                        vs.push(v(
                            "fault-eof-verdict",
                            "ok after a truncated TLS stream",
                            format!(
                                "TLS stream cut after {} wire bytes (client had not finished, no close_notify) but run_on returned Ok",
                                k
                            ),
                        ));
                    }
                    return;
                }
                let boundary = w.unit_ends.iter().position(|e| *e == k);
                // what the model says about the commands before the boundary
                let expect_ok = match boundary {
                    Some(u) => {
                        // units 0..=u were delivered completely; the connection must not have
                        // ended (by model) within them — if it had, EOF would not have been reached
                        out.model.auth.is_some() && plan.cfg.auth_reject.is_none() && {
                            let _ = u;
                            true
                        }
                    }
                    None => false,
                };
                match (&out.end, expect_ok) {
                    (RunEnd::Ok, true) => {}
                    (RunEnd::IoErr { .. }, false) | (RunEnd::Token(_), false) => {}
                    (RunEnd::Ok, false) => vs.push(v(
                        "fault-eof-verdict",
                        "ok inside a packet / before handshake completed",
                        format!(
                            "stream ended after {} bytes (not a command boundary; unit ends {:?}) but run_on returned Ok",
                            k,
                            &w.unit_ends[..w.unit_ends.len().min(6)]
                        ),
                    )),
                    (e, true) => vs.push(v(
                        "fault-eof-verdict",
                        "err at a command boundary",
                        format!("stream ended after {} bytes (a command boundary) but run_on returned {:?}", k, e),
                    )),
                    _ => {}
                }
            }
            FaultKind::Err(IoKind::Interrupted) | FaultKind::ZeroWrite => {
                // benign or fatal, never masked into a different outcome: either an error, or
                // exactly the fault-free end
                match (&out.end, &out.model.end) {
                    (RunEnd::IoErr { .. }, _) => {}
                    (RunEnd::Ok, crate::model::EndOfConn::Ok) => {}
                    (RunEnd::Token(a), crate::model::EndOfConn::Token(b)) if a == b => {}
                    (_, crate::model::EndOfConn::Any) => {}
                    (e, m) => vs.push(v(
                        "fault-masked",
                        "interrupted",
                        format!("{} at op {}: run_on returned {:?}, fault-free expectation {:?}", fdesc, fop, e, m),
                    )),
                }
            }
            _ => {
                if matches!(out.end, RunEnd::Ok) {
                    vs.push(v(
                        "fault-masked",
                        format!("{:?}", fault.kind).split('(').next().unwrap_or("").to_string(),
                        format!("{} at op {} but run_on returned Ok", fdesc, fop),
                    ));
                }
            }
        }
    }
    fn assumptions(&self) -> Vec<&'static str> {
        vec![
            "fault points are enumerated completely per conversation; conversations are sampled",
            "a fault is injected on a transport call the server actually makes (the simulator only acts when called)",
            "Interrupted and a zero-length write (Ok(0)) are not error reports: they may be retried (write_all retries Interrupted, rustls retries both) or reported; both outcomes are accepted",
            "about 1 in 12 conversations runs over TLS: operation-index faults then land underneath rustls, and end of stream is enumerated over every byte of the wire stream (a cut before the client's close_notify must never yield Ok; at or after it either outcome is accepted)",
        ]
    }
    fn probes(&self) -> &'static [&'static str] {
        &["fault.read_err", "fault.write_err", "fault.flush_err", "fault.eof"]
    }
}

// ------------------------------------------------------------------------------------------
// C20 — hostile client bytes

pub struct C20;

fn hostile_block(r: &mut Rng, nparams: usize) -> Blob {
    // inconsistent parameter blocks
    let mut b = Vec::new();
    let nm = (nparams + 7) / 8;
    if nparams > 0 && r.chance(1, 3) {
        // a well-formed block over every bindable type code, cut short (or padded) by a few
        // bytes: the decoder's idea of each value's size must agree with what it reads
        let mut t = None;
        let mut blk = gen_exec_block(r, nparams, &mut t, false, 100);
        for v in blk.values.iter_mut() {
            if matches!(v, PVal::Null) && r.chance(2, 3) {
                *v = PVal::Int(r.next() as i64);
            }
        }
        // make sure the last parameter carries inline bytes of a fixed-width type sometimes
        if r.coin() {
            if let Some(ty) = blk.bind.as_mut() {
                let last = ty.len() - 1;
                ty[last] = (*r.pick(&[0x01u8, 0x02, 0x0d, 0x09, 0x03, 0x08, 0x04, 0x05]), 0);
                blk.values[last] = PVal::Int(r.next() as i64);
                if ty[last].0 == 0x04 {
                    blk.values[last] = PVal::F32(r.next() as u32);
                } else if ty[last].0 == 0x05 {
                    blk.values[last] = PVal::F64(r.next());
                }
            }
        }
        let types = blk.bind.clone();
        let mut enc = crate::enc::param_block(&blk, types.as_deref());
        let cut = 1 + r.usize_below(4);
        if r.chance(4, 5) {
            enc.truncate(enc.len().saturating_sub(cut));
        } else {
            enc.extend(r.bytes(cut));
        }
        return Blob::Lit(enc);
    }
    match r.below(8) {
        0 => {} // empty block although parameters are declared
        1 => b.extend(r.bytes(nm.saturating_sub(1))), // truncated NULL bitmap
        2 => {
            b.extend(vec![0u8; nm]);
            b.push(1);
            b.extend(r.bytes(nparams)); // half the type table
        }
        3 => {
            b.extend(vec![0u8; nm]);
            b.push(1);
            for _ in 0..nparams {
                b.push(*r.pick(&[0x0eu8, 0x11, 0x12, 0x13, 0x14, 0x50, 0xf0, 0xf4, 0x06])); // unknown / unsupported type codes
                b.push(r.next() as u8);
            }
            b.extend(r.bytes_below(12));
        }
        4 => {
            b.extend(vec![0u8; nm]);
            b.push(r.next() as u8); // any flag byte value
            b.extend(r.bytes_below(20));
        }
        5 => {
            // valid types, truncated values
            b.extend(vec![0u8; nm]);
            b.push(1);
            for _ in 0..nparams {
                b.push(*r.pick(&[0x08u8, 0x03, 0xfd, 0x0c, 0x0b, 0x05]));
                b.push(0);
            }
            b.extend(r.bytes_below(6));
        }
        6 => {
            // lenenc length lies
            b.extend(vec![0u8; nm]);
            b.push(1);
            for _ in 0..nparams {
                b.push(0xfd);
                b.push(0);
            }
            b.push(*r.pick(&[0xfcu8, 0xfd, 0xfe, 0xff, 0xfb, 250]));
            b.extend(r.bytes_below(10));
        }
        _ => {
            // no types ever bound, flag 0
            b.extend(vec![0u8; nm]);
            b.push(0);
            b.extend(r.bytes_below(16));
        }
    }
    Blob::Lit(b)
}

/// A statement with as many parameters as the protocol allows (the count is a u16): PREPARE,
/// then a well-formed EXECUTE that binds a type for every parameter (all values NULL), then the
/// same without types. Sizes derived from the count (NULL bitmap, type table) pass 2^15 and 2^16.
fn gen_c20_many_params(r: &mut Rng) -> Plan {
    let np = *r.pick(&[32_767usize, 32_768, 32_769, 40_000, 65_534, 65_535]);
    let params: Vec<ColSpec> = (0..np)
        .map(|_| ColSpec {
            table: Blob::lit(b""),
            name: Blob::lit(b"?"),
            coltype: 0xfd,
            flags: 0,
        })
        .collect();
    let exec = |bind: Option<Vec<(u8, u8)>>| Cmd {
        seq: 0,
        kind: CmdKind::Execute {
            stmt: 3,
            flags: 0,
            iters: 1,
            block: ParamBlock {
                bind,
                values: vec![PVal::Null; np],
                raw: None,
                stale_types: None,
            },
        },
        act: Act::Program(super::common::simple_ok_program()),
    };
    let ty = *r.pick(&[(0x03u8, 0u8), (0xfd, 0), (0x08, 0x80)]);
    let cmds = vec![
        Cmd {
            seq: 0,
            kind: CmdKind::Prepare(Blob::lit(b"insert into t values (?, ?, ...)")),
            act: Act::Prepare(PrepAct::Reply {
                id: 3,
                params,
                cols: vec![],
            }),
        },
        exec(Some(vec![ty; np])),
        exec(None),
        Cmd {
            seq: 0,
            kind: CmdKind::Ping,
            act: Act::None,
        },
    ];
    let mut p = Plan::basic(cmds);
    p.arrival = Arrival::upfront();
    p
}

/// A client that still believes in the types it bound for an id executes it without types after
/// the shim has handed the same (still open) id out again for a statement with another
/// parameter count: whatever the server makes of the stale belief, it must not panic.
fn gen_c20_stale_after_reprepare(r: &mut Rng) -> Plan {
    let n1 = 1 + r.usize_below(4);
    let n2 = match r.below(3) {
        0 => n1 + 1 + r.usize_below(4),
        1 => n1.saturating_sub(1),
        _ => n1,
    };
    let id = *r.pick(&[1u32, 0, u32::MAX, 42]);
    let prep = |n: usize| Cmd {
        seq: 0,
        kind: CmdKind::Prepare(Blob::lit(b"p")),
        act: Act::Prepare(PrepAct::Reply {
            id,
            params: (0..n)
                .map(|_| ColSpec {
                    table: Blob::lit(b""),
                    name: Blob::lit(b"?"),
                    coltype: 0xfd,
                    flags: 0,
                })
                .collect(),
            cols: vec![],
        }),
    };
    let exec = |bind: Option<Vec<(u8, u8)>>, n: usize, stale: Option<Vec<(u8, u8)>>| Cmd {
        seq: 0,
        kind: CmdKind::Execute {
            stmt: id,
            flags: 0,
            iters: 1,
            block: ParamBlock {
                bind,
                values: (0..n).map(|i| PVal::Int(i as i64)).collect(),
                raw: None,
                stale_types: stale,
            },
        },
        act: Act::Program(super::common::simple_ok_program()),
    };
    let ty = *r.pick(&[(0x03u8, 0u8), (0x08, 0), (0x01, 0x80)]);
    let mut cmds = vec![prep(n1), exec(Some(vec![ty; n1]), n1, None)];
    if r.coin() {
        cmds.push(exec(None, n1, None));
    }
    cmds.push(prep(n2));
    // the client encodes the values with the types it believes in (stale_types)
    cmds.push(exec(None, n2, Some(vec![ty; n2.max(1)])));
    cmds.push(Cmd {
        seq: 0,
        kind: CmdKind::Ping,
        act: Act::None,
    });
    let mut p = Plan::basic(cmds);
    p.reads = gen_reads(r);
    p
}

fn gen_c20(r: &mut Rng, job: u64) -> Plan {
    if job % 40_000 == 39_999 {
        return gen_c20_many_params(r);
    }
    if job % 300 == 299 {
        return gen_c20_stale_after_reprepare(r);
    }
    // (b) systematic sweep of all command payloads of length <= 3 over a 12-byte alphabet
    const ALPHA: [u8; 12] = [0x00, 0x01, 0x02, 0x03, 0x04, 0x0e, 0x16, 0x17, 0x18, 0x19, 0x1f, 0xff];
    let sweep = 12 + 144 + 1728 + 1;
    if job < sweep {
        let payload: Vec<u8> = if job == 0 {
            vec![]
        } else if job <= 12 {
            vec![ALPHA[(job - 1) as usize]]
        } else if job <= 12 + 144 {
            let j = job - 13;
            vec![ALPHA[(j / 12) as usize], ALPHA[(j % 12) as usize]]
        } else {
            let j = job - 13 - 144;
            vec![ALPHA[(j / 144) as usize], ALPHA[((j / 12) % 12) as usize], ALPHA[(j % 12) as usize]]
        };
        let mut p = Plan::basic(vec![
            Cmd {
                seq: 0,
                kind: CmdKind::Raw(Blob::Lit(payload)),
                act: Act::None,
            },
            Cmd {
                seq: 0,
                kind: CmdKind::Ping,
                act: Act::None,
            },
        ]);
        p.reads = gen_reads(r);
        return p;
    }
    if job % 20_000 == 1885 + 7 {
        // out-of-order / arbitrary ids between the fragments of a giant request
        let sq = r.next() as u8;
        let mut p = super::props::gen_giant_inbound(r, sq);
        let (hdrs, _) = header_offsets(&p);
        // headers of continuation fragments are those that follow a full packet
        let conts: Vec<u64> = hdrs
            .windows(2)
            .filter(|w| w[1] - w[0] == 4 + U24)
            .map(|w| w[1])
            .collect();
        if let Some(&h) = conts.first() {
            let h = if r.coin() { h } else { *r.pick(&conts) };
            p.mutations.push(Mutation::Set {
                off: h + 3,
                val: r.next() as u8,
            });
        }
        return p;
    }
    match r.weighted(&[45, 20, 10, 10, 15]) {
        0 => {
            // (a) valid conversation + 1..3 byte-level mutations aimed at structure
            let mut o = ConvOpts::std();
            o.simple_programs = true;
            o.max_cmds = 8;
            o.random_seq = r.coin();
            let cmds = gen_conv(r, &o);
            let mut p = finish_plan(r, cmds);
            p.faults.clear();
            p.handshake = gen_handshake(r);
            let (hdrs, len) = header_offsets(&p);
            let nm = 1 + r.below(3);
            for _ in 0..nm {
                let h = *r.pick(&hdrs);
                let m = match r.below(9) {
                    0 => Mutation::Set {
                        off: h + r.below(3),
                        val: r.next() as u8,
                    }, // header length lie
                    1 => Mutation::Set {
                        off: h + 3,
                        val: r.next() as u8,
                    }, // sequence id
                    2 => Mutation::Set {
                        off: h + 4,
                        val: r.next() as u8,
                    }, // command byte
                    3 => Mutation::Set {
                        off: h + 4 + r.below(16),
                        val: r.next() as u8,
                    }, // early payload byte (ids, counts, flags)
                    4 => Mutation::Truncate {
                        off: h + r.below(12),
                    },
                    5 => Mutation::Delete {
                        off: h + 4 + r.below(8),
                        len: 1 + r.below(4),
                    },
                    6 => Mutation::Insert {
                        off: h + 4 + r.below(8),
                        bytes: r.bytes_below1(4),
                    },
                    7 => Mutation::Set {
                        off: r.below(len.max(1)),
                        val: r.next() as u8,
                    },
                    _ => Mutation::Set {
                        off: h,
                        val: *r.pick(&[0u8, 1, 0xff]),
                    },
                };
                p.mutations.push(m);
            }
            p
        }
        1 => {
            // structured: raw commands and inconsistent parameter blocks on a live statement
            let np = r.usize_below(6);
            let mut cmds = vec![Cmd {
                seq: 0,
                kind: CmdKind::Prepare(Blob::lit(b"p")),
                act: Act::Prepare(PrepAct::Reply {
                    id: 1,
                    params: (0..np).map(|_| gen_col_text(r)).collect(),
                    cols: vec![],
                }),
            }];
            if r.coin() {
                // a first, well-formed execution binds types
                let mut t = None;
                let block = gen_exec_block(r, np, &mut t, false, 100);
                cmds.push(Cmd {
                    seq: 0,
                    kind: CmdKind::Execute {
                        stmt: 1,
                        flags: 0,
                        iters: 1,
                        block,
                    },
                    act: Act::Program(simple_ok_program()),
                });
            }
            cmds.push(Cmd {
                seq: gen_seq(r, true),
                kind: CmdKind::Execute {
                    stmt: 1,
                    flags: r.next() as u8,
                    iters: r.next() as u32,
                    block: ParamBlock {
                        bind: None,
                        values: vec![],
                        raw: Some(hostile_block(r, np)),
                        stale_types: None,
                    },
                },
                act: Act::Program(simple_ok_program()),
            });
            cmds.push(Cmd {
                seq: 0,
                kind: CmdKind::Ping,
                act: Act::None,
            });
            let mut p = Plan::basic(cmds);
            p.reads = gen_reads(r);
            p
        }
        2 => {
            // truncated / unknown commands with any sequence id
            let n = 1 + r.usize_below(4);
            let mut cmds = Vec::new();
            for _ in 0..n {
                let body = match r.below(6) {
                    0 => vec![r.next() as u8],
                    1 => {
                        let mut b = vec![*r.pick(&[0x17u8, 0x18, 0x19])];
                        b.extend(r.bytes_below(9));
                        b
                    }
                    2 => vec![],
                    3 => {
                        let mut b = vec![*r.pick(&[0x05u8, 0x06, 0x07, 0x08, 0x09, 0x11, 0x1a, 0x1b, 0x1c, 0x1f])];
                        b.extend(r.bytes_below(20));
                        b
                    }
                    _ => r.bytes_below1(12),
                };
                cmds.push(Cmd {
                    seq: gen_seq(r, true),
                    kind: CmdKind::Raw(Blob::Lit(body)),
                    act: Act::None,
                });
            }
            let mut p = Plan::basic(cmds);
            p.reads = gen_reads(r);
            p
        }
        3 => {
            // malformed handshakes in both layouts
            let mut p = Plan::basic(vec![Cmd {
                seq: 0,
                kind: CmdKind::Ping,
                act: Act::None,
            }]);
            let good = crate::enc::handshake_payload(&gen_handshake(r).body);
            let body = match r.below(6) {
                0 => good[..r.usize_below(good.len() + 1)].to_vec(),
                1 => {
                    let mut g = good.clone();
                    g.extend(r.bytes_below(300));
                    g
                }
                2 => r.bytes_below(40),
                3 => {
                    // SSL bit without TLS
                    let mut g = good.clone();
                    if g.len() > 2 {
                        g[1] |= 0x08;
                        g[1] |= 0x02;
                    }
                    g
                }
                4 => {
                    // 3.20 layout without NUL
                    let mut g = vec![0x00, 0x00, 1, 2, 3];
                    g.extend(vec![b'u'; r.usize_below(10)]);
                    g
                }
                _ => vec![],
            };
            p.handshake = Handshake {
                seq: gen_seq(r, true),
                body: HsBody::Raw(body),
            };
            p.reads = gen_reads(r);
            if r.coin() {
                p.cfg.tls_offered = false;
            }
            p
        }
        _ => {
            // (c) random byte strings as the whole stream or as the post-handshake stream
            let n = r.usize_below(65);
            let bytes = r.bytes(n);
            if r.coin() {
                let mut p = Plan::basic(vec![]);
                p.raw_client = Some(Blob::Lit(bytes));
                p.reads = gen_reads(r);
                p
            } else {
                let mut p = Plan::basic(vec![]);
                // valid handshake then garbage: encode as one mutation-free raw stream
                let hs = crate::enc::handshake_payload(&p.handshake.body);
                let mut s = Vec::new();
                crate::enc::frame(&mut s, &hs, 1);
                s.extend(bytes);
                p.raw_client = Some(Blob::Lit(s));
                p.reads = gen_reads(r);
                p
            }
        }
    }
}

impl Check for C20 {
    fn id(&self) -> &'static str {
        "C20"
    }
    fn decided_by(&self) -> &'static str {
        "hostile inputs (grammar-aware mutation of valid conversations, structured inconsistent parameter blocks, short-string sweep, random bytes) under seeded chunking"
    }
    fn rule_text(&self) -> &'static str {
        "jobs 0..1884 sweep every command payload of length <= 3 over a 12-byte alphabet after a valid handshake; the remaining jobs are seeded: valid conversations with 1..3 structure-aimed byte mutations (header length, sequence id, command byte, ids/counts/flags, truncation, insertion, deletion), EXECUTEs with inconsistent parameter blocks (truncated NULL bitmap / type table / values, unknown type codes, any flag byte, lenenc length lies, types never bound), truncated and unknown commands with any sequence id, malformed handshakes in both layouts, random byte strings <= 64 as whole stream or behind a valid handshake; 1 run in 25 over a transport that accepts no more bytes from a seeded operation on (write returns Ok(0)); 1 job in 40 000 prepares and executes a statement with 32 767..65 535 parameters. Oracle: run_on never panics (site = file + message with numbers erased), terminates (operation budget + watchdog), and everything flushed splits into well-formed packets. Distinct = plan signature."
    }
    fn jobs(&self, tier: Tier) -> u64 {
        match tier {
            Tier::Quick => 400_000,
            Tier::Thorough => 10_000_000,
        }
    }
    fn run_job(&self, rng: &mut Rng, _tier: Tier, job: u64, ctx: &mut JobCtx<'_>) {
        if job % 1_000 == 500 {
            // a well-formed conversation that ends with COM_QUIT, also over a real socket whose
            // client end stays open: the server must hang up by itself, not wait for the client
            let mut o = super::conv::ConvOpts::std();
            o.max_cmds = 6;
            o.quit_at_end = 100;
            let cmds = super::conv::gen_conv(rng, &o);
            let plan = super::conv::finish_plan(rng, cmds);
            ctx.eval(&plan);
            super::props::tcp_always(&plan, ctx);
            return;
        }
        let mut plan = gen_c20(rng, job);
        if rng.chance(1, 25) && plan.faults.is_empty() {
            // the other way to spin: a transport that stops accepting bytes (write returns
            // Ok(0) from some operation on, e.g. a full fixed-size sink) must end the run
            plan.faults.push(Fault {
                at: FaultAt::Op(rng.below(40)),
                kind: FaultKind::ZeroWrite,
                persistent: true,
            });
        }
        ctx.eval(&plan);
        super::props::tcp_share(&plan, job, ctx);
    }
    fn owns(&self, rule: &str) -> bool {
        ["panic", "framing", "wedged"].contains(&rule)
    }
    fn assumptions(&self) -> Vec<&'static str> {
        vec![
            "the client stream is finite and the client then closes, so non-termination means spinning without I/O (watchdog) or unbounded I/O (operation budget)",
            "known panic sites are keyed by normalised location + message; a new site is a violation",
            "client, transport and application are models; msql-srv and its dependencies are the real code",
        ]
    }
}
