//! Checks C06–C10, C13, C14, C16, C17 (input- and history-dominated properties riding on the
//! simulated connection).

use super::common::*;
use super::conv::*;
use super::props::{wrong_kind_cell, Simple};
use crate::judge::Violation;
use crate::plan::*;
use crate::rng::Rng;
use crate::runner::{Check, JobCtx, Tier};
use crate::sim::{Outcome, RunEnd};
use std::collections::BTreeMap;

const INPUT_ASSUME: &[&str] = &[
    "verdict carried by seeded input generation; the simulated connection (real RowWriter/PacketConn/parsers, chunked reads, short writes) is the vehicle, the independent client decoder the oracle",
    "client, transport and application are models; msql-srv and its dependencies are the real code built from /repo's working tree",
    "client visibility = bytes the server has flushed",
    "a clean batch is evidence over sampled inputs, not proof",
];

fn q(text: &[u8], prog: Program) -> Cmd {
    Cmd {
        seq: 0,
        kind: CmdKind::Query(Blob::lit(text)),
        act: Act::Program(prog),
    }
}

fn one_unit(u: Unit) -> Program {
    let term = matches!(&u, Unit::Rows(r) if r.close != Close::FinishOne);
    Program {
        units: vec![u],
        end: if term { End::Implicit } else { End::NoMoreResults },
        ret_err: None,
        probe_cells: false,
        pull_params: None,
        pull_skip: 0,
        mixed_rows: 0,
        ret_panic: false,
    }
}

/// tolerate the destructor panic that follows a *reported* shape error (DESIGN 6/C03, 8/#11)
fn panic_only_after_success(_plan: &Plan, out: &Outcome, vs: &mut Vec<Violation>) {
    let api_err = out.w.api.iter().any(|a| !a.ok);
    if api_err {
        vs.retain(|v| v.rule != "panic" && !(v.rule == "end" && matches!(out.end, RunEnd::Panic { .. })));
    }
}

// ------------------------------------------------------------------------------------------
// C06 — text values

fn gen_c06(r: &mut Rng, _t: Tier, _job: u64) -> Plan {
    let nq = 1 + r.usize_below(3);
    let mut cmds = Vec::new();
    for _ in 0..nq {
        let ncols = 1 + r.usize_below(8);
        let nrows = r.usize_below(7);
        let big = r.chance(1, 10);
        let cols: Vec<ColSpec> = (0..ncols).map(|_| gen_col_text(r)).collect();
        let rows = (0..nrows)
            .map(|_| (0..ncols).map(|_| gen_cell_text(r, big)).collect())
            .collect();
        cmds.push(q(
            b"select text",
            one_unit(Unit::Rows(RowsUnit {
                cols,
                rows,
                write_row: r.coin(),
                last_row_ended: r.chance(2, 3),
                close: if r.coin() { Close::Finish } else { Close::FinishOne },
                contra: None,
                recover: None,
            })),
        ));
    }
    let mut p = Plan::basic(cmds);
    p.reads = gen_reads(r);
    p.arrival = gen_arrival(r);
    p.writes = gen_writes(r, true);
    if r.chance(1, 25) {
        // the same values over a TLS connection (rows larger than a TLS record / rustls'
        // 64 KiB send buffer included)
        p.cfg.tls_offered = true;
        p.cfg.tls = Some(TlsClient {
            cert: false,
            v13: r.coin(),
            seed: r.next(),
            chain: 0,
            big_hello: false,
        });
        p.writes = WriteSched::all();
        if r.coin() {
            p.writes.accept = vec![*r.pick(&[5u32, 64, 1000, 4096])];
        }
    }
    p
}

pub fn c06() -> Simple {
    Simple {
        id: "C06",
        decided_by: "inputs (values x row layouts); schedule axis orthogonal (chunking, short writes)",
        rule_text: "one run = 1..3 text resultsets of 1..8 columns x 0..6 rows with cells from per-type generators (all ten integer types at range edges/powers of two, finite f32/f64 incl. subnormals and -0.0, byte/str data across length classes incl. 0x00/0xFB/0xFF/'NULL', dates in years 0..9999, datetimes/durations with and without microseconds, Option, every generic Value variant); oracle: independent text-row decoder, cell decoded by the written Rust type and compared exactly, NULL <=> 0xFB. Distinct = plan signature (cell kinds and size classes per position).",
        quick: 400_000,
        thorough: 8_000_000,
        budget_q: 60,
        budget_t: 600,
        owns: &["text-value", "resp-malformed", "resp-shape", "api-call-failed", "panic", "end", "resp-missing", "decode-myc"],
        gen: gen_c06,
        extra: None,
        assumptions: INPUT_ASSUME,
    }
}

// ------------------------------------------------------------------------------------------
// C07 — binary rows

fn ncols_c07(r: &mut Rng) -> usize {
    *r.pick(&[1usize, 1, 2, 3, 5, 6, 6, 7, 7, 8, 8, 9, 14, 15, 16, 17, 22, 23, 64, 300])
}

fn prep_exec(r: &mut Rng, id: u32, cols: Vec<ColSpec>, prog: Program) -> Vec<Cmd> {
    vec![
        Cmd {
            seq: 0,
            kind: CmdKind::Prepare(query_text(r)),
            act: Act::Prepare(PrepAct::Reply {
                id,
                params: vec![],
                cols: announce_cols(r, &cols),
            }),
        },
        Cmd {
            seq: 0,
            kind: CmdKind::Execute {
                stmt: id,
                flags: 0,
                iters: 1,
                block: ParamBlock {
                    bind: None,
                    values: vec![],
                    raw: None,
                    stale_types: None,
                },
            },
            act: Act::Program(prog),
        },
    ]
}

fn gen_c07(r: &mut Rng, _t: Tier, job: u64) -> Plan {
    if job % 25_000 == 12_345 {
        // a row of exactly two or three full packets (the terminating empty packet is owed)
        return super::props3::gen_c04_binary_exact_multiple(r);
    }
    if job % 12 == 7 {
        // integers of every Rust type into integer columns of every width and signedness,
        // including combinations the encoder has to refuse (same width, opposite sign): a value
        // that is accepted must arrive as itself (C15's plans and oracle)
        return super::props3::gen_c15_seeded(r);
    }
    let ncols = ncols_c07(r);
    let cols: Vec<ColSpec> = (0..ncols)
        .map(|_| {
            let mut c = gen_col_bin(r);
            if ncols > 20 {
                c.table = Blob::lit(b"t");
                c.name = Blob::lit(b"c");
            }
            c
        })
        .collect();
    let nrows = if ncols > 64 { 1 + r.usize_below(2) } else { r.usize_below(6) };
    let pattern = r.below(5);
    let big = ncols <= 8 && r.chance(1, 10);
    let mut rows: Vec<Vec<Cell>> = Vec::new();
    for ri in 0..nrows {
        let single = r.usize_below(ncols);
        let row = cols
            .iter()
            .enumerate()
            .map(|(ci, c)| {
                let nullable = c.flags & 1 == 0;
                let want_null = match pattern {
                    0 => false,
                    1 => true,
                    2 => ci == single,
                    3 => (ci + ri) % 2 == 0,
                    _ => r.chance(1, 3),
                };
                if want_null && nullable {
                    match r.below(10) {
                        0 | 1 => Cell::Myc(MycV::Null),
                        2 => Cell::Ref(Box::new(Cell::Null(1))),
                        _ => Cell::Null(r.below(6) as u8),
                    }
                } else {
                    let c2 = gen_cell_for_col(r, c.coltype, c.flags, big);
                    if r.chance(1, 12) && !matches!(c2, Cell::Myc(_)) {
                        Cell::Some(Box::new(c2))
                    } else {
                        c2
                    }
                }
            })
            .collect();
        rows.push(row);
    }
    let mut unit = RowsUnit {
        cols: cols.clone(),
        rows,
        write_row: r.coin(),
        last_row_ended: r.chance(2, 3),
        close: if r.coin() { Close::Finish } else { Close::FinishOne },
        contra: None,
        recover: None,
    };
    // refusal cases: one per ~5 runs
    if !unit.rows.is_empty() && r.chance(1, 5) {
        let row = r.usize_below(unit.rows.len()) as u32;
        let col = r.usize_below(ncols);
        if r.coin() {
            unit.cols[col].flags |= 1;
            let c = unit.cols[col].clone();
            for rw in unit.rows.iter_mut() {
                if is_null_cell(&rw[col]) {
                    rw[col] = gen_cell_for_col(r, c.coltype, c.flags, false);
                }
            }
            unit.contra = Some(Contra::NullIntoNotNull { row, col: col as u32 });
        } else {
            let cell = wrong_kind_cell(r, unit.cols[col].coltype);
            unit.contra = Some(Contra::WrongKind {
                row,
                col: col as u32,
                cell,
            });
        }
        unit.last_row_ended = true;
        if r.coin() {
            unit.recover = Some((gen_errkind(r), gen_errmsg(r)));
        }
    }
    let cols_final = unit.cols.clone();
    let sid = 1 + r.below(1000) as u32;
    let mut cmds = prep_exec(r, sid, cols_final, one_unit(Unit::Rows(unit)));
    sprinkle_exec_flags(r, &mut cmds, 6);
    let mut p = Plan::basic(cmds);
    p.reads = gen_reads(r);
    p.arrival = gen_arrival(r);
    p.writes = gen_writes(r, true);
    p
}

fn c07_extra(plan: &Plan, out: &Outcome, vs: &mut Vec<Violation>) {
    let probe = plan.cmds.iter().any(|c| matches!(&c.act, Act::Program(p) if p.probe_cells));
    if probe {
        // a C15 plan: refusals (Err or panic inside the probed call) end the run early by
        // design; only C15's integer oracle and the decoder speak
        vs.retain(|v| v.rule == "resp-malformed");
        super::props3::c15_extra_judge(plan, out, vs);
    } else {
        panic_only_after_success(plan, out, vs);
    }
}

pub fn c07() -> Simple {
    Simple {
        id: "C07",
        decided_by: "inputs (column lists x NULL patterns x values); schedule axis orthogonal",
        rule_text: "one run = PREPARE + EXECUTE answered with a binary resultset of 1..300 columns (weighted to NULL-bitmap byte boundaries 6,7,8,14,15,16,17,22,23) of every type the encoder supports x UNSIGNED x NOT NULL, NULL patterns none/all/single/alternating/random, values per type incl. DATE/DATETIME/TIMESTAMP with and without microseconds and TIME in its 0/8/12-byte forms, generic values; one refusal case per ~5 runs (NULL into NOT NULL, value of a kind the column cannot carry); one job in 12 is a C15 plan (integers of every Rust type into integer columns of every width and signedness, judged by C15's oracle: accepted => same number). Oracle: binary-row decoder driven by the definitions as received; accepted => decodes to exactly the written value; bitmap bit (i+2) <=> cell i NULL, other bits zero; refusal cases must return Err. Distinct = plan signature.",
        quick: 200_000,
        thorough: 5_000_000,
        budget_q: 60,
        budget_t: 600,
        owns: &[
            "bin-value",
            "null-bitmap",
            "decode-myc",
            "contradiction-accepted",
            "resp-malformed",
            "resp-shape",
            "api-call-failed",
            "panic",
            "end",
            "resp-missing",
            "int-altered",
            "int-refused",
            "int-unaccounted",
        ],
        gen: gen_c07,
        extra: Some(c07_extra),
        assumptions: INPUT_ASSUME,
    }
}

// ------------------------------------------------------------------------------------------
// C08 — parameters

/// One parameter streamed in chunks of about 1 MiB up to a total of 60..70 MiB (more than the
/// 64 MiB that the library itself reports as @@max_allowed_packet), another one inline: the
/// execution must see exactly the bytes sent, however many there are.
pub fn gen_streamed_volume(r: &mut Rng) -> Plan {
    let total_mib = *r.pick(&[60usize, 63, 64, 65, 66, 70]);
    let mut cmds = vec![Cmd {
        seq: 0,
        kind: CmdKind::Prepare(Blob::lit(b"insert into blobs values (?, ?)")),
        act: Act::Prepare(PrepAct::Reply {
            id: 11,
            params: (0..2)
                .map(|_| ColSpec {
                    table: Blob::lit(b""),
                    name: Blob::lit(b"?"),
                    coltype: 0xfc,
                    flags: 0,
                })
                .collect(),
            cols: vec![],
        }),
    }];
    let mut left = total_mib * 1024 * 1024 + r.usize_below(3);
    while left > 0 {
        let n = match r.below(8) {
            0 => 0,
            1 => 2 * 1024 * 1024,
            2 => 1 + r.usize_below(5000),
            _ => 1024 * 1024,
        }
        .min(left);
        left -= n;
        cmds.push(Cmd {
            seq: 0,
            kind: CmdKind::LongData {
                stmt: 11,
                param: 0,
                data: Blob::Gen {
                    len: n as u32,
                    salt: r.next() as u32,
                    ascii: false,
                },
            },
            act: Act::None,
        });
    }
    cmds.push(Cmd {
        seq: 0,
        kind: CmdKind::Execute {
            stmt: 11,
            flags: 0,
            iters: 1,
            block: ParamBlock {
                bind: Some(vec![(0xfc, 0), (0x03, 0)]),
                values: vec![PVal::Skip, PVal::Int(42)],
                raw: None,
                stale_types: None,
            },
        },
        act: Act::Program(simple_ok_program()),
    });
    cmds.push(Cmd {
        seq: 0,
        kind: CmdKind::Ping,
        act: Act::None,
    });
    let mut p = Plan::basic(cmds);
    p.arrival = Arrival::upfront();
    p.reads = ReadSched {
        explicit: vec![],
        cuts: vec![],
        tail: Tail::Fixed(*r.pick(&[1_048_576u32, 4_000_003])),
    };
    p
}

/// A statement with a long life whose first parameter was streamed (COM_STMT_SEND_LONG_DATA)
/// for one execution only: every later execution sends it inline, hundreds or tens of thousands
/// of times. What was streamed once must never come back, however the library counts.
/// `first_chunk`: size of the first streamed chunk (a large one leaves a large buffer behind).
pub fn gen_long_life_after_long_data(r: &mut Rng, period: usize, first_chunk: usize) -> Plan {
    let id = *r.pick(&[3u32, 9, 0, u32::MAX]);
    let mut cmds = vec![Cmd {
        seq: 0,
        kind: CmdKind::Prepare(Blob::lit(b"insert into t values (?, ?)")),
        act: Act::Prepare(PrepAct::Reply {
            id,
            params: (0..2)
                .map(|_| ColSpec {
                    table: Blob::lit(b""),
                    name: Blob::lit(b"?"),
                    coltype: 0xfd,
                    flags: 0,
                })
                .collect(),
            cols: vec![],
        }),
    }];
    for n in [first_chunk, 7] {
        cmds.push(Cmd {
            seq: 0,
            kind: CmdKind::LongData {
                stmt: id,
                param: 0,
                data: Blob::Gen {
                    len: n as u32,
                    salt: r.next() as u32,
                    ascii: false,
                },
            },
            act: Act::None,
        });
    }
    let exec = |bind: Option<Vec<(u8, u8)>>, values: Vec<PVal>| Cmd {
        seq: 0,
        kind: CmdKind::Execute {
            stmt: id,
            flags: 0,
            iters: 1,
            block: ParamBlock {
                bind,
                values,
                raw: None,
                stale_types: None,
            },
        },
        act: Act::Program(simple_ok_program()),
    };
    cmds.push(exec(Some(vec![(0xfc, 0), (0x08, 0)]), vec![PVal::Skip, PVal::Int(0)]));
    for i in 1..=period + 2 {
        let text = PVal::Bytes {
            data: Blob::Lit(format!("row {}", i).into_bytes()),
            form: 0,
        };
        // now and then the types travel again (same types): a rebind is no new streaming either
        let bind = if i % 1000 == 999 && r.coin() { Some(vec![(0xfc, 0), (0x08, 0)]) } else { None };
        cmds.push(exec(bind, vec![text, PVal::Int(i as i64)]));
    }
    let mut p = Plan::basic(cmds);
    p.arrival = if r.coin() { Arrival::upfront() } else { Arrival::lockstep() };
    if period > 10_000 || first_chunk > 100_000 {
        p.reads = ReadSched {
            explicit: vec![],
            cuts: vec![],
            tail: Tail::Fixed(*r.pick(&[4096u32, 65_536, 1_000_003])),
        };
    }
    p
}

fn gen_c08(r: &mut Rng, _t: Tier, job: u64) -> Plan {
    if job % 40_000 == 7 {
        return gen_streamed_volume(r);
    }
    if job == 1 {
        return gen_long_life_after_long_data(r, 65_536, 20);
    }
    if job % 2_000 == 778 {
        let period = *r.pick(&[256usize, 256, 255, 257, 512, 3]);
        let first = *r.pick(&[20usize, 20, 1_100_000, 1_048_576, 70_000]);
        return gen_long_life_after_long_data(r, period, first);
    }
    if job % 200_000 == 50_001 {
        let period = *r.pick(&[65_536usize, 65_535, 65_537, 131_072]);
        return gen_long_life_after_long_data(r, period, 20);
    }
    let np = *r.pick(&[0usize, 1, 1, 2, 3, 5, 7, 8, 9, 15, 16, 17, 40, 300]);
    // ids are the shim's choice: anything, the extremes included
    let id = match r.below(8) {
        0 => u32::MAX,
        1 => 0,
        _ => r.next() as u32,
    };
    let mut cmds = vec![Cmd {
        seq: 0,
        kind: CmdKind::Prepare(query_text(r)),
        act: Act::Prepare(PrepAct::Reply {
            id,
            params: (0..np)
                .map(|_| ColSpec {
                    table: Blob::lit(b""),
                    name: Blob::lit(b"?"),
                    coltype: 0xfd,
                    flags: 0,
                })
                .collect(),
            cols: vec![],
        }),
    }];
    if r.chance(1, 3) {
        // another statement is prepared afterwards (and never used): "the statement prepared
        // last" is then not the one the executions name
        cmds.push(Cmd {
            seq: 0,
            kind: CmdKind::Prepare(Blob::lit(b"decoy")),
            act: Act::Prepare(PrepAct::Reply {
                id: if id == 1 { 2 } else { 1 },
                params: vec![ColSpec {
                    table: Blob::lit(b""),
                    name: Blob::lit(b"?"),
                    coltype: 0x08,
                    flags: 0,
                }],
                cols: vec![],
            }),
        });
    }
    // sometimes the id was handed out before with another parameter count (a caching shim
    // re-using ids without a close in between): the execution must see the new declaration
    if r.chance(1, 6) {
        let old_np = *r.pick(&[0usize, 1, 2, 3, 8, 9]);
        if old_np != np {
            let prev = Cmd {
                seq: 0,
                kind: CmdKind::Prepare(query_text(r)),
                act: Act::Prepare(PrepAct::Reply {
                    id,
                    params: (0..old_np)
                        .map(|_| ColSpec {
                            table: Blob::lit(b""),
                            name: Blob::lit(b"?"),
                            coltype: 0xfd,
                            flags: 0,
                        })
                        .collect(),
                    cols: vec![],
                }),
            };
            cmds.insert(0, prev);
            if old_np > 0 && r.coin() {
                let mut t = None;
                let block = gen_exec_block(r, old_np, &mut t, false, 100);
                cmds.insert(
                    1,
                    Cmd {
                        seq: 0,
                        kind: CmdKind::Execute {
                            stmt: id,
                            flags: 0,
                            iters: 1,
                            block,
                        },
                        act: Act::Program(simple_ok_program()),
                    },
                );
            }
        }
    }
    let nexec = 1 + r.usize_below(3);
    let mut types = None;
    let big = np <= 5 && r.chance(1, 8);
    for _ in 0..nexec {
        let mut block = gen_exec_block(r, np, &mut types, big, 100);
        // NULL patterns
        match r.below(6) {
            0 => {
                for v in block.values.iter_mut() {
                    *v = PVal::Null;
                }
            }
            1 => {
                for (i, v) in block.values.iter_mut().enumerate() {
                    if i % 2 == 0 {
                        *v = PVal::Null;
                    }
                }
            }
            _ => {}
        }
        cmds.push(Cmd {
            seq: 0,
            kind: CmdKind::Execute {
                stmt: id,
                flags: 0,
                iters: 1,
                block,
            },
            act: Act::Program(simple_ok_program()),
        });
    }
    if np > 0 && r.chance(1, 6) {
        // one parameter is streamed (SEND_LONG_DATA) for the first execution; the executions
        // after it bind it inline again and must see exactly the inline value
        let k = r.below(np as u64) as u16;
        // (an empty value streamed as one zero-length chunk -- what libmysqlclient sends for
        // mysql_stmt_send_long_data(stmt, i, "", 0) -- is a streamed value all the same)
        let n = if r.chance(1, 3) { 0 } else { size_tiny(r) };
        let pos = cmds.iter().position(|c| matches!(c.kind, CmdKind::Execute { stmt, .. } if stmt == id)).unwrap_or(cmds.len());
        cmds.insert(
            pos,
            Cmd {
                seq: 0,
                kind: CmdKind::LongData {
                    stmt: id,
                    param: k,
                    data: blob_bytes(r, n),
                },
                act: Act::None,
            },
        );
        fix_long_data(&mut cmds);
    }
    sprinkle_pulls(r, &mut cmds, 10);
    let mut p = Plan::basic(cmds);
    p.reads = gen_reads(r);
    if r.chance(1, 4) {
        let (h, _) = header_offsets(&p);
        add_header_cuts(r, &mut p.reads, &h, 50);
    }
    p.arrival = gen_arrival(r);
    p.writes = gen_writes(r, false);
    p
}

pub fn c08() -> Simple {
    Simple {
        id: "C08",
        decided_by: "inputs (type codes x flags x length forms x NULL bitmaps) + read chunking of the EXECUTE packet",
        rule_text: "one run = PREPARE declaring 0..300 parameters + 1..3 EXECUTEs with hand-encoded blocks: every type code the parser accepts with and without the unsigned bit, values at range edges, lenenc strings across size classes and in non-minimal length forms, DATE 0/4, DATETIME/TIMESTAMP 0/4/7/11, TIME 0/8/12 byte forms, NULL bitmaps none/all/alternating/random; oracle: the shim sees exactly the declared number of parameters, each with the bound type code and the exact value, and converting to the corresponding Rust type yields what the client encoded. Distinct = plan signature.",
        quick: 120_000,
        thorough: 4_000_000,
        budget_q: 60,
        budget_t: 900,
        owns: &[
            "param-count",
            "param-type",
            "param-value",
            "param-conv",
            "callback-args",
            "callback-missing",
            "callback-extra",
            "panic",
            "end",
        ],
        gen: gen_c08,
        extra: None,
        assumptions: INPUT_ASSUME,
    }
}

// ------------------------------------------------------------------------------------------
// C09 — column metadata

fn name_c09(r: &mut Rng, huge_ok: bool) -> Blob {
    match r.weighted(&[40, 12, 12, 12, 12, if huge_ok { 6 } else { 0 }, 6]) {
        0 => {
            let n = r.usize_below(12);
            blob_ascii(r, n)
        }
        1 => Blob::lit(b""),
        2 => {
            let n = 248 + r.usize_below(8);
            blob_ascii(r, n)
        }
        3 => {
            let n = 1 + r.usize_below(90);
            blob_utf8(r, n)
        }
        4 => {
            let n = r.range(253, 2000) as usize;
            blob_ascii(r, n)
        }
        5 => {
            let n = (65_530 + r.below(4_500)) as usize;
            blob_ascii(r, n)
        }
        _ => {
            let n = 1 + r.usize_below(30);
            blob_utf8(r, n)
        }
    }
}

fn col_c09(r: &mut Rng, huge_ok: bool) -> ColSpec {
    ColSpec {
        table: name_c09(r, huge_ok),
        name: name_c09(r, huge_ok),
        coltype: *r.pick(all_types()),
        flags: r.next() as u16,
    }
}

fn count_c09(r: &mut Rng) -> usize {
    match r.weighted(&[10, 25, 25, 8, 8, 8, 3, 6]) {
        0 => 0,
        1 => 1,
        2 => 2 + r.usize_below(8),
        3 => 250,
        4 => 251,
        5 => 252 + r.usize_below(3),
        6 => 1000,
        // counts at which a byte-sized quantity (sequence id, bitmap byte, length byte) comes
        // back to where it started, and their neighbours
        _ => *r.pick(&[255usize, 256, 257, 511, 512, 513, 767, 768, 769, 1023, 1024, 1025]),
    }
}

fn gen_c09(r: &mut Rng, _t: Tier, job: u64) -> Plan {
    if job % 6_000 == 777 {
        // names of 8..50 MiB: the definition spans packets
        return super::props3::gen_c04_giant_definition(r);
    }
    let mut cmds = Vec::new();
    if r.chance(1, 8) {
        // one prepared statement executed several times: every execution declares its own
        // resultset header (same or different column count); what the client receives is what
        // that execution declared
        let id = r.next() as u32;
        let nc = 1 + r.usize_below(4);
        let decl: Vec<ColSpec> = (0..nc).map(|_| col_c09(r, false)).collect();
        cmds.push(Cmd {
            seq: 0,
            kind: CmdKind::Prepare(query_text(r)),
            act: Act::Prepare(PrepAct::Reply {
                id,
                params: vec![],
                cols: decl,
            }),
        });
        for _ in 0..2 + r.usize_below(3) {
            let n2 = if r.chance(3, 4) { nc } else { 1 + r.usize_below(4) };
            let cols: Vec<ColSpec> = (0..n2).map(|_| col_c09(r, false)).collect();
            cmds.push(Cmd {
                seq: 0,
                kind: CmdKind::Execute {
                    stmt: id,
                    flags: 0,
                    iters: 1,
                    block: ParamBlock {
                        bind: None,
                        values: vec![],
                        raw: None,
                        stale_types: None,
                    },
                },
                act: Act::Program(one_unit(Unit::Rows(RowsUnit {
                    cols,
                    rows: vec![],
                    write_row: true,
                    last_row_ended: true,
                    close: Close::Finish,
                    contra: None,
                    recover: None,
                }))),
            });
            if r.chance(1, 5) {
                cmds.push(Cmd {
                    seq: 0,
                    kind: CmdKind::Close(id),
                    act: Act::None,
                });
                break;
            }
        }
    }
    let n = 1 + r.usize_below(3);
    for _ in 0..n {
        if r.coin() {
            let nc = count_c09(r);
            let huge_ok = nc <= 4;
            let cols: Vec<ColSpec> = (0..nc).map(|_| col_c09(r, huge_ok)).collect();
            cmds.push(q(
                b"header",
                one_unit(Unit::Rows(RowsUnit {
                    cols,
                    rows: vec![],
                    write_row: true,
                    last_row_ended: true,
                    close: Close::Finish,
                    contra: None,
                    recover: None,
                })),
            ));
        } else {
            let np = count_c09(r);
            let nc = if np > 300 { r.usize_below(3) } else { count_c09(r) };
            let huge_ok = np + nc <= 4;
            cmds.push(Cmd {
                seq: 0,
                kind: CmdKind::Prepare(query_text(r)),
                act: Act::Prepare(PrepAct::Reply {
                    id: match r.below(4) {
                        0 => 0,
                        1 => u32::MAX,
                        _ => r.next() as u32,
                    },
                    params: (0..np).map(|_| col_c09(r, huge_ok)).collect(),
                    cols: (0..nc).map(|_| col_c09(r, huge_ok)).collect(),
                }),
            });
        }
    }
    let mut p = Plan::basic(cmds);
    p.reads = gen_reads(r);
    p.arrival = gen_arrival(r);
    p.writes = gen_writes(r, true);
    p
}

pub fn c09() -> Simple {
    Simple {
        id: "C09",
        decided_by: "inputs (descriptor lists); schedule axis orthogonal (short writes on large definition blocks)",
        rule_text: "one run = 1..3 resultset headers / PREPARE replies with 0..1025 descriptors (weighted 0,1,250,251,252,1000 and 256k-1,256k,256k+1), table/column names of 0..70000 bytes incl. non-ASCII, every column type the library can name, random 16-bit flag masks, statement ids over u32 incl. 0 and MAX; oracle: decoded definitions == declared (count, order, table, name, type byte, flag bits), PREPARE_OK id/param count/column count, EOF after each non-empty block. Distinct = plan signature.",
        quick: 60_000,
        thorough: 1_500_000,
        budget_q: 60,
        budget_t: 600,
        owns: &["coldef", "resp-malformed", "resp-shape", "api-call-failed", "panic", "end", "resp-missing", "decode-myc"],
        gen: gen_c09,
        extra: None,
        assumptions: INPUT_ASSUME,
    }
}

// ------------------------------------------------------------------------------------------
// C10 — statement lifecycle

/// A connection on which a large volume of long data (5 x 15 MiB) is abandoned -- sent to
/// statements that are then closed or re-prepared without being executed -- and which then uses
/// a statement normally: nothing of the abandoned data may count against (or leak into) it.
fn gen_c10_abandoned_volume(r: &mut Rng) -> Plan {
    let mut cmds = Vec::new();
    let one_param = |r: &mut Rng, id: u32| Cmd {
        seq: 0,
        kind: CmdKind::Prepare(Blob::lit(b"p")),
        act: Act::Prepare(PrepAct::Reply {
            id,
            params: vec![gen_col_text(r)],
            cols: vec![],
        }),
    };
    for round in 0..5u32 {
        let id = if r.coin() { 7 } else { 7 + round };
        cmds.push(one_param(r, id));
        cmds.push(Cmd {
            seq: 0,
            kind: CmdKind::LongData {
                stmt: id,
                param: 0,
                data: Blob::Gen {
                    len: 15 * 1024 * 1024 + r.below(1000) as u32,
                    salt: r.next() as u32,
                    ascii: false,
                },
            },
            act: Act::None,
        });
        if r.coin() {
            cmds.push(Cmd {
                seq: 0,
                kind: CmdKind::Close(id),
                act: Act::None,
            });
        }
        // (otherwise the next round re-prepares the id, or it simply stays open)
    }
    cmds.push(one_param(r, 7));
    for _ in 0..2 {
        let n = 1 + size_tiny(r);
        cmds.push(Cmd {
            seq: 0,
            kind: CmdKind::LongData {
                stmt: 7,
                param: 0,
                data: blob_bytes(r, n),
            },
            act: Act::None,
        });
    }
    cmds.push(Cmd {
        seq: 0,
        kind: CmdKind::Execute {
            stmt: 7,
            flags: 0,
            iters: 1,
            block: ParamBlock {
                bind: Some(vec![(0xfc, 0)]),
                values: vec![PVal::Skip],
                raw: None,
                stale_types: None,
            },
        },
        act: Act::Program(simple_ok_program()),
    });
    cmds.push(Cmd {
        seq: 0,
        kind: CmdKind::Ping,
        act: Act::None,
    });
    let mut p = Plan::basic(cmds);
    p.arrival = Arrival::upfront();
    p.reads = ReadSched {
        explicit: vec![],
        cuts: vec![],
        tail: Tail::Fixed(*r.pick(&[1_048_576u32, 4_000_003])),
    };
    p
}

fn gen_c10(r: &mut Rng, _t: Tier, job: u64) -> Plan {
    if job % 30_000 == 4_242 {
        return gen_c10_abandoned_volume(r);
    }
    let pool = [0u32, 1, u32::MAX, 0x0001_0000];
    let nops = 3 + r.usize_below(28);
    // client-side view: id -> (nparams, types)
    let mut live: BTreeMap<u32, (usize, Option<Vec<(u8, u8)>>)> = BTreeMap::new();
    let mut cmds = Vec::new();
    let illegal_at = if r.chance(1, 2) { Some(r.usize_below(nops)) } else { None };
    for i in 0..nops {
        let id = *r.pick(&pool);
        if Some(i) == illegal_at {
            // an operation on a dead / unknown id
            let dead: Vec<u32> = pool.iter().cloned().filter(|x| !live.contains_key(x)).collect();
            if let Some(&d) = dead.first() {
                let d = if r.coin() { d } else { *r.pick(&dead) };
                if r.chance(1, 4) {
                    // a statement command this library does not implement (COM_STMT_RESET,
                    // COM_STMT_FETCH) or COM_RESET_CONNECTION names / precedes the dead id:
                    // whatever the server makes of it, the id stays dead
                    let mut body = vec![*r.pick(&[0x1au8, 0x1a, 0x1c, 0x1f])];
                    if body[0] != 0x1f {
                        body.extend_from_slice(&d.to_le_bytes());
                    }
                    if body[0] == 0x1c {
                        body.extend_from_slice(&1u32.to_le_bytes());
                    }
                    cmds.push(Cmd {
                        seq: 0,
                        kind: CmdKind::Unsupported(Blob::Lit(body)),
                        act: Act::None,
                    });
                }
                if r.coin() {
                    cmds.push(Cmd {
                        seq: 0,
                        kind: CmdKind::Execute {
                            stmt: d,
                            flags: 0,
                            iters: 1,
                            block: ParamBlock {
                                bind: Some(vec![(0x08, 0)]),
                                values: vec![PVal::Int(7)],
                                raw: None,
                    stale_types: None,
                            },
                        },
                        act: Act::Program(simple_ok_program()),
                    });
                } else {
                    cmds.push(Cmd {
                        seq: 0,
                        kind: CmdKind::LongData {
                            stmt: d,
                            param: r.below(3) as u16,
                            data: match r.below(3) {
                                0 => Blob::lit(b""),
                                1 => Blob::lit(b"late"),
                                _ => {
                                    let n = size_tiny(r);
                                    blob_bytes(r, n)
                                }
                            },
                        },
                        act: Act::None,
                    });
                }
                continue;
            }
        }
        match r.weighted(&[30, 30, 12, 20, 8]) {
            0 => {
                // PREPARE ok | error (also re-prepare of a live id with another count)
                if r.chance(1, 5) {
                    cmds.push(Cmd {
                        seq: 0,
                        kind: CmdKind::Prepare(query_text(r)),
                        act: Act::Prepare(PrepAct::Error {
                            kind: gen_errkind(r),
                            msg: gen_errmsg(r),
                        }),
                    });
                } else {
                    let mut np = r.usize_below(5);
                    // a re-PREPARE of a live id whose previous incarnation had bound types
                    let stale = live.get(&id).and_then(|e| e.1.clone());
                    if stale.is_some() && r.chance(1, 2) {
                        np = stale.as_ref().unwrap().len().min(1 + r.usize_below(4));
                    }
                    live.insert(id, (np, None));
                    cmds.push(Cmd {
                        seq: 0,
                        kind: CmdKind::Prepare(query_text(r)),
                        act: Act::Prepare(PrepAct::Reply {
                            id,
                            params: (0..np).map(|_| gen_col_text(r)).collect(),
                            cols: vec![],
                        }),
                    });
                    if let Some(old) = stale {
                        if np > 0 && np <= old.len() && r.chance(1, 3) {
                            // a confused client reuses the types it bound before the re-PREPARE:
                            // the execution must never reach the shim decoded with stale types
                            let values = (0..np)
                                .map(|i| {
                                    let mut v = gen_pval(r, old[i].0, old[i].1, false);
                                    if matches!(v, PVal::Null) {
                                        v = gen_pval(r, old[i].0, old[i].1, false);
                                    }
                                    v
                                })
                                .collect();
                            cmds.push(Cmd {
                                seq: 0,
                                kind: CmdKind::Execute {
                                    stmt: id,
                                    flags: 0,
                                    iters: 1,
                                    block: ParamBlock {
                                        bind: None,
                                        values,
                                        raw: None,
                                        stale_types: Some(old[..np].to_vec()),
                                    },
                                },
                                act: Act::Program(simple_ok_program()),
                            });
                            break;
                        }
                    }
                }
            }
            1 => {
                let ids: Vec<u32> = live.keys().cloned().collect();
                if ids.is_empty() {
                    continue;
                }
                let id = *r.pick(&ids);
                let ent = live.get_mut(&id).unwrap();
                let np = ent.0;
                let block = gen_exec_block(r, np, &mut ent.1, false, 40);
                cmds.push(Cmd {
                    seq: 0,
                    kind: CmdKind::Execute {
                        stmt: id,
                        flags: 0,
                        iters: 1,
                        block,
                    },
                    act: Act::Program(simple_ok_program()),
                });
            }
            2 => {
                let ids: Vec<u32> = live.keys().cloned().collect();
                if ids.is_empty() {
                    continue;
                }
                let id = *r.pick(&ids);
                let np = live[&id].0;
                let n = size_tiny(r);
                cmds.push(Cmd {
                    seq: 0,
                    kind: CmdKind::LongData {
                        stmt: id,
                        param: r.below(np as u64 + 2) as u16,
                        data: blob_bytes(r, n),
                    },
                    act: Act::None,
                });
            }
            3 => {
                // CLOSE of a live or never-prepared id
                live.remove(&id);
                cmds.push(Cmd {
                    seq: 0,
                    kind: CmdKind::Close(id),
                    act: Act::None,
                });
            }
            _ => cmds.push(Cmd {
                seq: 0,
                kind: CmdKind::Ping,
                act: Act::None,
            }),
        }
    }
    // tail of ordinary commands (never reached after an illegal operation)
    for _ in 0..r.below(3) {
        cmds.push(q(b"tail", simple_ok_program()));
    }
    let mut cmds = cmds;
    sprinkle_pulls(r, &mut cmds, 10);
    finish_plan(r, cmds)
}

pub fn c10() -> Simple {
    Simple {
        id: "C10",
        decided_by: "histories (refinement against the reference statement registry)",
        rule_text: "one run = 3..30 operations over a pool of 4 statement ids (incl. 0 and u32::MAX): PREPARE(ok with chosen id and parameter count | error), EXECUTE, SEND_LONG_DATA, CLOSE (also of never-prepared ids), re-PREPARE of a live id with another parameter count, in half of the runs one operation on a dead/unknown id followed by ordinary commands; one job in 30 000 abandons 75 MiB of long data (statements closed / re-prepared without execution) before using a statement normally; oracle: callback log == model's (no callback for the illegal operation or anything after it, on_close exactly once per CLOSE, no bytes for CLOSE/LONG_DATA), run_on returns Err for the illegal operation, after re-PREPARE the next EXECUTE sees the new parameter count and no stale long data. Distinct = plan signature.",
        quick: 300_000,
        thorough: 8_000_000,
        budget_q: 60,
        budget_t: 600,
        owns: &[
            "callback-args",
            "callback-missing",
            "callback-extra",
            "param-count",
            "param-type",
            "param-value",
            "end",
            "panic",
            "resp-extra-bytes",
            "resp-shape",
            "resp-malformed",
            "resp-missing",
        ],
        gen: gen_c10,
        extra: None,
        assumptions: super::props::COMMON_ASSUME_PUB,
    }
}

// ------------------------------------------------------------------------------------------
// C13 — errors

pub struct C13;

/// every place of a conversation where the shim reports an error of its choosing
fn visit_err_sites(cmds: &mut [Cmd], f: &mut dyn FnMut(&mut u16, &mut Blob)) {
    for c in cmds.iter_mut() {
        match &mut c.act {
            Act::Program(p) => {
                for u in p.units.iter_mut() {
                    if let Unit::Rows(ru) = u {
                        if let Close::FinishError { kind, msg } = &mut ru.close {
                            f(kind, msg);
                        }
                    }
                }
                if let End::Error { kind, msg } = &mut p.end {
                    f(kind, msg);
                }
            }
            Act::Prepare(PrepAct::Error { kind, msg }) => f(kind, msg),
            Act::Init(InitAct::Error { kind, msg }) => f(kind, msg),
            _ => {}
        }
    }
}

fn gen_c13_plan(r: &mut Rng, kind: u16) -> Plan {
    let msg = gen_errmsg(r);
    let site = r.below(8);
    let mut cmds = Vec::new();
    let binary = r.coin();
    let rows_unit = |r: &mut Rng, close: Close, binary: bool| -> RowsUnit {
        let ncols = 1 + r.usize_below(3);
        let cols: Vec<ColSpec> = (0..ncols)
            .map(|_| if binary { gen_col_bin(r) } else { gen_col_text(r) })
            .collect();
        let nrows = r.usize_below(6);
        let rows = (0..nrows)
            .map(|_| {
                cols.iter()
                    .map(|c| {
                        if binary {
                            gen_cell_bin(r, c, false)
                        } else {
                            gen_cell_text(r, false)
                        }
                    })
                    .collect()
            })
            .collect();
        RowsUnit {
            cols,
            rows,
            write_row: r.coin(),
            last_row_ended: r.chance(2, 3),
            close,
            contra: None,
            recover: None,
        }
    };
    match site {
        0 => {
            // QueryResultWriter::error as first call
            cmds.push(q(
                b"err first",
                Program {
                    units: vec![],
                    end: End::Error { kind, msg },
                    ret_err: None,
                    probe_cells: false,
                    pull_params: None,
                    pull_skip: 0,
                    mixed_rows: 0,
                    ret_panic: false,
                },
            ));
        }
        1 => {
            // after k units
            let k = 1 + r.usize_below(3);
            let mut units = Vec::new();
            for _ in 0..k {
                if r.coin() {
                    units.push(Unit::Count {
                        affected: gen_u64_cliff(r),
                        last_id: gen_u64_cliff(r),
                    });
                } else {
                    units.push(Unit::Rows(rows_unit(r, Close::FinishOne, false)));
                }
            }
            cmds.push(q(
                b"err after units",
                Program {
                    units,
                    end: End::Error { kind, msg },
                    ret_err: None,
                    probe_cells: false,
                    pull_params: None,
                    pull_skip: 0,
                    mixed_rows: 0,
                    ret_panic: false,
                },
            ));
        }
        2 | 3 => {
            // RowWriter::finish_error after 0..5 rows, text or binary
            let unit = rows_unit(r, Close::FinishError { kind, msg }, binary);
            if binary {
                let cols = unit.cols.clone();
                cmds.extend(prep_exec(r, 5, cols, one_unit(Unit::Rows(unit))));
            } else {
                cmds.push(q(b"finish_error", one_unit(Unit::Rows(unit))));
            }
        }
        7 => {
            // the shim reports an error after the library refused a value (binary mode): the
            // refused cell is in column `col` of a row that follows 0..3 good rows
            let mut unit = rows_unit(r, Close::Finish, true);
            if unit.rows.is_empty() {
                let row = unit.cols.iter().map(|c| gen_cell_bin(r, c, false)).collect();
                unit.rows.push(row);
            }
            let row = r.usize_below(unit.rows.len()) as u32;
            let col = if r.chance(2, 3) { 0 } else { r.usize_below(unit.cols.len()) };
            let cell = wrong_kind_cell(r, unit.cols[col].coltype);
            unit.contra = Some(Contra::WrongKind {
                row,
                col: col as u32,
                cell,
            });
            unit.last_row_ended = true;
            unit.recover = Some((kind, msg));
            let cols = unit.cols.clone();
            cmds.extend(prep_exec(r, 5, cols, one_unit(Unit::Rows(unit))));
        }
        4 => cmds.push(Cmd {
            seq: 0,
            kind: CmdKind::Prepare(query_text(r)),
            act: Act::Prepare(PrepAct::Error { kind, msg }),
        }),
        5 => {
            let n = 1 + r.usize_below(8);
            cmds.push(Cmd {
                seq: 0,
                kind: CmdKind::InitDb(blob_ascii(r, n)),
                act: Act::Init(InitAct::Error { kind, msg }),
            })
        }
        _ => cmds.push(Cmd {
            seq: 0,
            kind: CmdKind::Query(Blob::Lit(gen_use_text(r))),
            act: Act::Init(InitAct::Error { kind, msg }),
        }),
    }
    // a sentinel so that a shifted/garbled ERR is noticed
    cmds.push(Cmd {
        seq: 0,
        kind: CmdKind::Ping,
        act: Act::None,
    });
    if r.chance(1, 5) {
        // "report, then hang up": the callback that reported the error returns an error of its
        // own afterwards (a connection-fatal condition); the ERR was reported all the same
        for c in cmds.iter_mut() {
            if let Act::Program(pg) = &mut c.act {
                let reports = matches!(pg.end, End::Error { .. })
                    || pg.units.iter().any(|u| matches!(u, Unit::Rows(ru) if matches!(ru.close, Close::FinishError { .. })));
                if reports && pg.ret_err.is_none() {
                    pg.ret_err = Some((pg.units.len() as u32 + 1, 0xE300_0000 | r.below(1 << 20) as u32));
                    break;
                }
            }
        }
    }
    let mut p = Plan::basic(cmds);
    if r.chance(1, 3) {
        // whatever the client announced about itself (character set, capabilities,
        // max_packet_size) does not change the bytes of an error message
        p.handshake = gen_handshake(r);
    }
    p.reads = gen_reads(r);
    p.arrival = gen_arrival(r);
    p.writes = gen_writes(r, true);
    p
}

impl Check for C13 {
    fn id(&self) -> &'static str {
        "C13"
    }
    fn decided_by(&self) -> &'static str {
        "inputs (kind x message x reporting site); side sweep enumerates the kind table"
    }
    fn rule_text(&self) -> &'static str {
        "one run = one error of kind k (job index walks the kind table extracted from errorcodes.rs at build time, so every kind is visited) with a generated message (empty, ASCII, non-UTF-8, leading '#'/NUL/0xFF, long) reported at one of 7 sites (QueryResultWriter::error first / after k units, RowWriter::finish_error after 0..5 rows in text and binary, StatementMetaWriter::error, InitWriter::error via COM_INIT_DB and via USE) followed by a sentinel PING; oracle: ERR packet code == declared discriminant, '#' marker, state == kind.sqlstate(), message bytes identical. Side sweep (enumeration, not simulation): ErrorKind::from(code) == kind for every variant, and code/SQLSTATE equal the snapshot pinned from the original tree. Distinct = plan signature (includes the kind)."
    }
    fn jobs(&self, tier: Tier) -> u64 {
        match tier {
            Tier::Quick => 900_000,
            Tier::Thorough => 20_000_000,
        }
    }
    fn run_job(&self, rng: &mut Rng, _tier: Tier, job: u64, ctx: &mut JobCtx<'_>) {
        if job % 8 == 7 {
            // errors reported inside the all-features conversation (TLS, pipelining, faults, ...)
            let plan = super::sink::gen_sink(rng, _tier, job);
            ctx.stats.bump("probe.kitchen_sink_runs", 1);
            ctx.eval(&plan);
            return;
        }
        if job % 100_000 == 99_999 {
            // the error that follows a row of exactly k * (2^24-1) bytes left open by the shim
            let plan = super::props3::gen_c04_error_after_open_giant_row(rng);
            ctx.stats.bump("probe.error_after_open_giant_row", 1);
            ctx.eval(&plan);
            return;
        }
        let kinds = crate::kinds::KINDS;
        let kind = kinds[(job % kinds.len() as u64) as usize].1;
        let mut plan = gen_c13_plan(rng, kind);
        if rng.chance(1, 6) {
            // the same kind of error a second time on the connection (from the same or another
            // reporting site), with a message of the same length but other content: what the
            // first one left behind must not colour the second
            let mut first: Option<Vec<u8>> = None;
            visit_err_sites(&mut plan.cmds, &mut |_, m| {
                if first.is_none() {
                    first = Some(m.to_vec());
                }
            });
            if let Some(m0) = first.filter(|m| !m.is_empty() && m.len() <= 100_000) {
                let mut extra = gen_c13_plan(rng, kind).cmds;
                let mut twin = m0.clone();
                let mut changed = false;
                for b in twin.iter_mut() {
                    let nb = match *b {
                        b'a'..=b'y' | b'A'..=b'Y' | b'0'..=b'8' => *b + 1,
                        b'z' => b'a',
                        b'Z' => b'A',
                        b'9' => b'0',
                        x => x,
                    };
                    changed |= nb != *b;
                    *b = nb;
                }
                if !changed {
                    let l = twin.len() - 1;
                    twin[l] ^= 0x01;
                }
                visit_err_sites(&mut extra, &mut |_, m| *m = Blob::Lit(twin.clone()));
                ctx.stats.bump("probe.twin_errors", 1);
                plan.cmds.extend(extra);
            }
        }
        ctx.stats.bump("probe.kinds_visited_jobs", 1);
        ctx.eval(&plan);
        super::props::tcp_share(&plan, job, ctx);
    }
    fn owns(&self, rule: &str) -> bool {
        ["err-packet", "resp-shape", "resp-malformed", "resp-missing", "api-call-failed", "panic", "end", "decode-myc"].contains(&rule)
    }
    fn side_checks(&self, side: &mut BTreeMap<String, serde_json::Value>, vs: &mut Vec<(String, Violation)>) {
        let kinds = crate::kinds::KINDS;
        let mut bad = 0;
        let mut checked = 0;
        for (name, code, kind) in kinds {
            checked += 1;
            // discriminant as declared in the source
            if *kind as u16 != *code {
                bad += 1;
                vs.push((
                    "errorkind_roundtrip".into(),
                    Violation {
                        rule: "errkind-table",
                        site: "discriminant".into(),
                        detail: format!("{} has discriminant {} but is declared as {}", name, *kind as u16, code),
                    },
                ));
                break;
            }
            let back = std::panic::catch_unwind(|| msql_srv::ErrorKind::from(*code));
            match back {
                Ok(k) if k == *kind => {}
                other => {
                    bad += 1;
                    vs.push((
                        "errorkind_roundtrip".into(),
                        Violation {
                            rule: "errkind-table",
                            site: "from(code)".into(),
                            detail: format!("ErrorKind::from({}) = {:?}, expected {}", code, other.ok(), name),
                        },
                    ));
                    break;
                }
            }
        }
        // pinned snapshot: name -> (code, sqlstate) of the original tree
        let snap = crate::kinds::snapshot();
        let mut snap_checked = 0;
        for (name, code, state) in &snap {
            if let Some((_, c, k)) = kinds.iter().find(|k| k.0 == name) {
                snap_checked += 1;
                if c != code || k.sqlstate() != state {
                    vs.push((
                        "errorkind_snapshot".into(),
                        Violation {
                            rule: "errkind-table",
                            site: "snapshot".into(),
                            detail: format!(
                                "{}: code {} / state {:?}, pinned snapshot says {} / {:?}",
                                name,
                                c,
                                String::from_utf8_lossy(k.sqlstate()),
                                code,
                                String::from_utf8_lossy(state)
                            ),
                        },
                    ));
                    break;
                }
            }
        }
        side.insert(
            "errorkind_roundtrip".into(),
            serde_json::json!({"kinds_in_source": kinds.len(), "checked": checked, "failed": bad, "method": "enumeration of the table extracted from src/errorcodes.rs (not simulation)"}),
        );
        side.insert(
            "errorkind_snapshot".into(),
            serde_json::json!({"snapshot_entries": snap.len(), "compared": snap_checked}),
        );
    }
    fn assumptions(&self) -> Vec<&'static str> {
        INPUT_ASSUME.to_vec()
    }
}

// ------------------------------------------------------------------------------------------
// C14 — completion counts

/// A zero-column resultset on which the shim ends a great many rows: the count reported in the
/// OK passes 2^16, 2^24, 2^26 and 2^32 (one job per batch in the quick tier, more in thorough).
fn gen_c14_bulk(r: &mut Rng, t: Tier, past_u32: bool) -> Plan {
    let n: u64 = match if past_u32 { 3 + r.below(2) } else { r.below(if t == Tier::Thorough { 5 } else { 3 }) } {
        0 => (1 << 16) - 2 + r.below(5),
        1 => (1 << 24) - 2 + r.below(5),
        2 => (1 << 26) + r.below(1000),
        3 => (1u64 << 32) - 2 + r.below(5),
        _ => (1u64 << 32) + 7 + r.below(1000),
    };
    let mut units = vec![];
    if r.coin() {
        units.push(Unit::Count {
            affected: 5,
            last_id: 6,
        });
    }
    units.push(Unit::BulkRows { n });
    if r.coin() {
        units.push(Unit::Count {
            affected: 7,
            last_id: 8,
        });
    }
    let prog = Program {
        units,
        end: End::Implicit,
        ret_err: None,
        probe_cells: false,
        pull_params: None,
        pull_skip: 0,
        mixed_rows: 0,
        ret_panic: false,
    };
    let mut cmds = Vec::new();
    if r.coin() {
        cmds.push(Cmd {
            seq: 0,
            kind: CmdKind::Query(Blob::lit(b"update everything")),
            act: Act::Program(prog),
        });
    } else {
        cmds.push(Cmd {
            seq: 0,
            kind: CmdKind::Prepare(Blob::lit(b"p")),
            act: Act::Prepare(PrepAct::Reply {
                id: 1,
                params: vec![],
                cols: vec![],
            }),
        });
        cmds.push(Cmd {
            seq: 0,
            kind: CmdKind::Execute {
                stmt: 1,
                flags: 0,
                iters: 1,
                block: ParamBlock {
                    bind: None,
                    values: vec![],
                    raw: None,
                    stale_types: None,
                },
            },
            act: Act::Program(prog),
        });
    }
    cmds.push(Cmd {
        seq: 0,
        kind: CmdKind::Ping,
        act: Act::None,
    });
    Plan::basic(cmds)
}

fn gen_c14(r: &mut Rng, t: Tier, job: u64) -> Plan {
    if job % 100_000 == 54_321 {
        // the first of these jobs always goes past 2^32 rows (a few seconds of CPU on one
        // worker while the others carry on), also in the quick tier
        return gen_c14_bulk(r, t, job == 54_321);
    }
    let mut cmds = Vec::new();
    let n = 1 + r.usize_below(3);
    for _ in 0..n {
        let binary = r.coin();
        let k = 1 + r.usize_below(4);
        let mut units = Vec::new();
        for _ in 0..k {
            if r.chance(2, 3) {
                units.push(Unit::Count {
                    affected: gen_u64_cliff(r),
                    last_id: gen_u64_cliff(r),
                });
            } else {
                // zero-column resultset: OK carries the number of ended rows
                let nrows = match r.below(4) {
                    0 => 0,
                    1 => 1,
                    2 => r.usize_below(20),
                    _ => 240 + r.usize_below(800),
                };
                // rows of a zero-column resultset may still be "written" (write_col is a no-op
                // there); only rows that were ended count
                let ncells = if r.coin() { 0 } else { 1 + r.usize_below(3) };
                let rows: Vec<Vec<Cell>> = (0..nrows)
                    .map(|_| (0..ncells).map(|_| gen_cell_text(r, false)).collect())
                    .collect();
                units.push(Unit::Rows(RowsUnit {
                    cols: vec![],
                    rows,
                    write_row: r.coin(),
                    last_row_ended: r.chance(2, 3),
                    close: Close::FinishOne,
                    contra: None,
                    recover: None,
                }));
            }
        }
        let mut prog = Program {
            units,
            end: if r.coin() { End::NoMoreResults } else { End::Implicit },
            ret_err: None,
            probe_cells: false,
            pull_params: None,
            pull_skip: 0,
            mixed_rows: 0,
            ret_panic: false,
        };
        if prog.end == End::Implicit {
            if let Some(Unit::Rows(ru)) = prog.units.last_mut() {
                ru.close = if r.coin() { Close::Finish } else { Close::Drop };
            }
        }
        if r.chance(1, 12) {
            // the application fails in the middle of (or right behind) the response -- with an
            // error of its own or with a panic: the completions it had reported by then were
            // reported
            let n = prog.units.len() as u32;
            prog.ret_err = Some((1 + r.below(n as u64 + 1) as u32, 0xE400_0000 | r.below(1 << 20) as u32));
            prog.ret_panic = r.coin();
        }
        if binary {
            cmds.extend(prep_exec(r, 3, vec![], prog));
        } else {
            cmds.push(q(b"counts", prog));
        }
    }
    let mut p = Plan::basic(cmds);
    p.reads = gen_reads(r);
    p.arrival = gen_arrival(r);
    p.writes = gen_writes(r, true);
    p
}

pub fn c14() -> Simple {
    Simple {
        id: "C14",
        decided_by: "inputs (u64 pairs at lenenc cliffs, row counts) x program position",
        rule_text: "one run = 1..3 commands (text and binary) each answered by 1..4 chained completions with (affected_rows, last_insert_id) drawn around 0, 250/251, 2^16, 2^24, 2^64-1 and uniformly, or by zero-column resultsets with 0..1040 ended rows (write_row / end_row, last row ended or not, finish / finish_one / drop); oracle: decoded OK counts equal the given values, zero-column OK carries the number of ended rows, more-results flag on all but the last. Distinct = plan signature.",
        quick: 400_000,
        thorough: 10_000_000,
        budget_q: 60,
        budget_t: 600,
        owns: &["ok-counts", "resp-more-flag", "resp-shape", "resp-malformed", "resp-missing", "api-call-failed", "panic", "end", "decode-myc", "early-exit-reply"],
        gen: gen_c14,
        extra: None,
        assumptions: INPUT_ASSUME,
    }
}

// ------------------------------------------------------------------------------------------
// C16 — bound types persist per statement

/// Many statements open at once (a client-side statement cache that never closes anything):
/// statement 1 binds its types, hundreds or thousands of other statements are prepared (some
/// executed), then statement 1 is executed again without types.
fn gen_c16_many_open(r: &mut Rng) -> Plan {
    let n = *r.pick(&[260usize, 520, 1030, 1100, 2050, 4100]);
    let mut cmds = Vec::new();
    let prep = |id: u32, np: usize| Cmd {
        seq: 0,
        kind: CmdKind::Prepare(Blob::lit(b"p")),
        act: Act::Prepare(PrepAct::Reply {
            id,
            params: (0..np)
                .map(|_| ColSpec {
                    table: Blob::lit(b""),
                    name: Blob::lit(b"?"),
                    coltype: 0xfd,
                    flags: 0,
                })
                .collect(),
            cols: vec![],
        }),
    };
    let exec = |id: u32, bind: Option<Vec<(u8, u8)>>, v: i64| Cmd {
        seq: 0,
        kind: CmdKind::Execute {
            stmt: id,
            flags: 0,
            iters: 1,
            block: ParamBlock {
                bind,
                values: vec![PVal::Int(v)],
                raw: None,
                stale_types: None,
            },
        },
        act: Act::Program(simple_ok_program()),
    };
    let ty = *r.pick(&[(0x01u8, 0u8), (0x02, 0), (0x03, 0x80), (0x08, 0)]);
    cmds.push(prep(1, 1));
    cmds.push(exec(1, Some(vec![ty]), 77));
    cmds.push(exec(1, None, -3));
    for i in 0..n as u32 {
        cmds.push(prep(10 + i, 1));
        if i % 97 == 5 {
            cmds.push(exec(10 + i, Some(vec![(0x08, 0)]), i as i64));
        }
    }
    cmds.push(exec(1, None, 0x1234));
    cmds.push(exec(10 + 5, None, 9));
    let mut p = Plan::basic(cmds);
    p.arrival = if r.coin() { Arrival::upfront() } else { Arrival::lockstep() };
    p
}

/// A rebinding EXECUTE that spans several packets (an inline value of 16 MiB or more), answered
/// by a shim that may not look at its parameters at all, followed by executions without types.
fn gen_c16_giant_rebind(r: &mut Rng) -> Plan {
    let prep = Cmd {
        seq: 0,
        kind: CmdKind::Prepare(Blob::lit(b"p")),
        act: Act::Prepare(PrepAct::Reply {
            id: 2,
            params: (0..2)
                .map(|_| ColSpec {
                    table: Blob::lit(b""),
                    name: Blob::lit(b"?"),
                    coltype: 0xfd,
                    flags: 0,
                })
                .collect(),
            cols: vec![],
        }),
    };
    let exec = |bind: Option<Vec<(u8, u8)>>, values: Vec<PVal>, pull: Option<u16>| {
        let mut pg = simple_ok_program();
        pg.pull_params = pull;
        Cmd {
            seq: 0,
            kind: CmdKind::Execute {
                stmt: 2,
                flags: 0,
                iters: 1,
                block: ParamBlock {
                    bind,
                    values,
                    raw: None,
                    stale_types: None,
                },
            },
            act: Act::Program(pg),
        }
    };
    let giant = PVal::Bytes {
        data: Blob::Gen {
            len: (1u32 << 24) - 40 + r.below(80) as u32,
            salt: r.next() as u32,
            ascii: false,
        },
        form: 0,
    };
    let small = |r: &mut Rng| PVal::Bytes {
        data: blob_bytes(r, 5),
        form: 0,
    };
    let cmds = vec![
        prep,
        exec(Some(vec![(0x08, 0x80), (0x03, 0)]), vec![PVal::Int(-2), PVal::Int(5)], None),
        exec(Some(vec![(0xfc, 0), (0x08, 0x80)]), vec![giant, PVal::Int(-2)], if r.coin() { Some(0) } else { None }),
        exec(None, vec![small(r), PVal::Int(-3)], None),
        exec(None, vec![small(r), PVal::Int(7)], None),
    ];
    let mut p = Plan::basic(cmds);
    p.arrival = Arrival::upfront();
    p.reads = ReadSched {
        explicit: vec![],
        cuts: vec![],
        tail: Tail::Fixed(*r.pick(&[1_048_576u32, 3_000_001])),
    };
    p
}

/// One statement with a long life: executed hundreds or tens of thousands of times on one
/// connection (a loader that binds its types once per chunk of rows). Types travel with the
/// first execution and again exactly 256 / 65536 (or one more or fewer) executions later, with
/// different types; whatever the library counts per statement must not make the second table
/// look like the first.
fn gen_c16_long_life(r: &mut Rng, period: usize) -> Plan {
    let big = period > 10_000;
    let id = *r.pick(&[1u32, 7, 0, u32::MAX]);
    let mut cmds = Vec::new();
    cmds.push(Cmd {
        seq: 0,
        kind: CmdKind::Prepare(Blob::lit(b"insert into t values (?)")),
        act: Act::Prepare(PrepAct::Reply {
            id,
            params: vec![ColSpec {
                table: Blob::lit(b""),
                name: Blob::lit(b"?"),
                coltype: 0xfd,
                flags: 0,
            }],
            cols: vec![],
        }),
    });
    let exec = |bind: Option<Vec<(u8, u8)>>, v: PVal| Cmd {
        seq: 0,
        kind: CmdKind::Execute {
            stmt: id,
            flags: 0,
            iters: 1,
            block: ParamBlock {
                bind,
                values: vec![v],
                raw: None,
                stale_types: None,
            },
        },
        act: Act::Program(simple_ok_program()),
    };
    let first = *r.pick(&[(0x08u8, 0u8), (0x03, 0), (0x02, 0x80)]);
    // executions before the first binding one (they carry types too: a statement with
    // parameters cannot be executed without ever having bound any)
    let warm = r.usize_below(3);
    for i in 0..warm {
        cmds.push(exec(Some(vec![(0x01, 0)]), PVal::Int(i as i64)));
    }
    cmds.push(exec(Some(vec![first]), PVal::Int(1)));
    for i in 1..period {
        cmds.push(exec(None, PVal::Int((i % 100) as i64)));
    }
    // the rebind, `period` executions after the one that bound `first`
    let text = |r: &mut Rng| PVal::Bytes {
        data: blob_bytes(r, 8),
        form: 0,
    };
    cmds.push(exec(Some(vec![(0xfd, 0)]), text(r)));
    cmds.push(exec(None, text(r)));
    cmds.push(exec(None, text(r)));
    let mut p = Plan::basic(cmds);
    p.arrival = if r.coin() { Arrival::upfront() } else { Arrival::lockstep() };
    if big {
        p.reads = ReadSched {
            explicit: vec![],
            cuts: vec![],
            tail: Tail::Fixed(*r.pick(&[4096u32, 65_536, 1_000_003])),
        };
    }
    p
}

fn gen_c16(r: &mut Rng, t: Tier, job: u64) -> Plan {
    if job % 2_000 == 777 {
        let period = *r.pick(&[256usize, 256, 255, 257, 512]);
        return gen_c16_long_life(r, period);
    }
    if job == 1 {
        return gen_c16_long_life(r, 65_536);
    }
    if job % 100_000 == 4_141 {
        let period = *r.pick(&[65_536usize, 65_536, 65_535, 65_537, 131_072]);
        return gen_c16_long_life(r, period);
    }
    let _ = t;
    if job % 4_000 == 1_313 {
        return gen_c16_many_open(r);
    }
    if job % 30_000 == 2_929 {
        return gen_c16_giant_rebind(r);
    }
    let ns = 2 + r.usize_below(3);
    let mut cmds = Vec::new();
    let mut st: Vec<(u32, usize, Option<Vec<(u8, u8)>>)> = Vec::new();
    for s in 0..ns {
        let id = [1u32, 2, 0, u32::MAX][s];
        let np = 1 + r.usize_below(6);
        st.push((id, np, None));
        cmds.push(Cmd {
            seq: 0,
            kind: CmdKind::Prepare(query_text(r)),
            act: Act::Prepare(PrepAct::Reply {
                id,
                params: (0..np).map(|_| gen_col_text(r)).collect(),
                cols: vec![],
            }),
        });
    }
    let nexec = 2 + r.usize_below(11 * ns / 2);
    for _ in 0..nexec {
        let s = r.usize_below(ns);
        let (id, np, types) = &mut st[s];
        if types.is_some() && r.chance(1, 14) {
            // the shim hands the same id out again for a new PREPARE (no close in between): the
            // new statement has no bound types, so an execution that binds nothing (a client
            // still believing in its old types) must not be decoded with them
            let old = types.clone().unwrap();
            let np2 = old.len();
            cmds.push(Cmd {
                seq: 0,
                kind: CmdKind::Prepare(query_text(r)),
                act: Act::Prepare(PrepAct::Reply {
                    id: *id,
                    params: (0..np2).map(|_| gen_col_text(r)).collect(),
                    cols: vec![],
                }),
            });
            *types = None;
            if r.coin() {
                let values = (0..np2)
                    .map(|i| {
                        let mut v = gen_pval(r, old[i].0, old[i].1, false);
                        if matches!(v, PVal::Null) {
                            v = gen_pval(r, old[i].0, old[i].1, false);
                        }
                        v
                    })
                    .collect();
                cmds.push(Cmd {
                    seq: 0,
                    kind: CmdKind::Execute {
                        stmt: *id,
                        flags: 0,
                        iters: 1,
                        block: ParamBlock {
                            bind: None,
                            values,
                            raw: None,
                            stale_types: Some(old),
                        },
                    },
                    act: Act::Program(simple_ok_program()),
                });
                break;
            }
            continue;
        }
        if r.chance(1, 7) {
            // long data for one parameter of this statement: consumed by its next execution,
            // which must leave the bound types of the statement alone
            let n = size_tiny(r);
            cmds.push(Cmd {
                seq: 0,
                kind: CmdKind::LongData {
                    stmt: *id,
                    param: r.below(*np as u64) as u16,
                    data: blob_bytes(r, n),
                },
                act: Act::None,
            });
            continue;
        }
        // width-diverse type vectors so that cross-talk or a shifted parse shows up in values
        let rebind = types.is_none() || r.chance(35, 100);
        let bind = if rebind {
            let t: Vec<(u8, u8)> = (0..*np)
                .map(|_| {
                    let t = *r.pick(&[0x01u8, 0x02, 0x03, 0x08, 0x05, 0x04, 0xfd, 0xfc, 0x0c, 0x0b, 0x0a]);
                    (t, if r.chance(1, 3) { 0x80 } else { 0 })
                })
                .collect();
            *types = Some(t.clone());
            Some(t)
        } else {
            None
        };
        let tv = types.clone().unwrap();
        let values = (0..*np)
            .map(|i| {
                let mut v = gen_pval(r, tv[i].0, tv[i].1, false);
                if matches!(v, PVal::Null) && r.chance(3, 4) {
                    v = gen_pval(r, tv[i].0, tv[i].1, false);
                }
                v
            })
            .collect();
        cmds.push(Cmd {
            seq: 0,
            kind: CmdKind::Execute {
                stmt: *id,
                flags: 0,
                iters: 1,
                block: ParamBlock {
                    bind,
                    values,
                    raw: None,
                    stale_types: None,
                },
            },
            act: Act::Program(simple_ok_program()),
        });
    }
    let mut cmds = cmds;
    sprinkle_pulls(r, &mut cmds, 10);
    finish_plan(r, cmds)
}

pub fn c16() -> Simple {
    Simple {
        id: "C16",
        decided_by: "histories (rebind/reuse choices per execution, statements interleaved) against the reference registry",
        rule_text: "one run = 2..4 statements (1..6 parameters) and 2..20 executions, each choosing to rebind (new-params-bound = 1 with fresh width-diverse types) or to reuse (flag 0, values encoded with the types last bound for that same statement), statements interleaved; oracle: the (type code, value) list the shim sees equals the model's for every execution. Distinct = plan signature (includes the rebind pattern).",
        quick: 300_000,
        thorough: 8_000_000,
        budget_q: 60,
        budget_t: 900,
        owns: &[
            "param-count",
            "param-type",
            "param-value",
            "callback-args",
            "callback-missing",
            "callback-extra",
            "panic",
            "end",
        ],
        gen: gen_c16,
        extra: None,
        assumptions: super::props::COMMON_ASSUME_PUB,
    }
}

// ------------------------------------------------------------------------------------------
// C17 — long data

/// long data arriving in multi-packet chunks (>= 2^24-1 bytes) next to small ones
fn gen_c17_giant(r: &mut Rng) -> Plan {
    let mk_prep = |id: u32, np: usize| Cmd {
        seq: 0,
        kind: CmdKind::Prepare(Blob::lit(b"p")),
        act: Act::Prepare(PrepAct::Reply {
            id,
            params: (0..np)
                .map(|_| ColSpec {
                    table: Blob::lit(b""),
                    name: Blob::lit(b"?"),
                    coltype: 0xfc,
                    flags: 0,
                })
                .collect(),
            cols: vec![],
        }),
    };
    let mut cmds = vec![mk_prep(1, 2), mk_prep(2, 1)];
    // payload = 7 + data; one, two or three full packets
    let kfull = match r.weighted(&[50, 35, 15]) {
        0 => 1i64,
        1 => 2,
        _ => 3,
    };
    let big_len = (kfull * U24 as i64 + r.irange(-9, 3)) as u32;
    let chunks: Vec<(u32, u16, Blob)> = vec![
        (1, 0, blob_bytes(r, 5)),
        (
            1,
            0,
            Blob::Gen {
                len: big_len,
                salt: r.next() as u32,
                ascii: false,
            },
        ),
        (2, 0, blob_bytes(r, 9)),
        (1, 0, blob_bytes(r, 3)),
        (1, 1, blob_bytes(r, 300)),
    ];
    for (stmt, param, data) in chunks {
        cmds.push(Cmd {
            seq: 0,
            kind: CmdKind::LongData { stmt, param, data },
            act: Act::None,
        });
    }
    for (stmt, np) in [(2u32, 1usize), (1, 2), (1, 2)] {
        cmds.push(Cmd {
            seq: 0,
            kind: CmdKind::Execute {
                stmt,
                flags: 0,
                iters: 1,
                block: ParamBlock {
                    bind: Some(vec![(0xfc, 0); np]),
                    values: (0..np)
                        .map(|_| PVal::Bytes {
                            data: blob_bytes(r, 4),
                            form: 0,
                        })
                        .collect(),
                    raw: None,
                    stale_types: None,
                },
            },
            act: Act::Program(simple_ok_program()),
        });
    }
    let mut cmds = cmds;
    fix_long_data(&mut cmds);
    let mut p = Plan::basic(cmds);
    p.arrival = Arrival::upfront();
    p.reads = ReadSched {
        explicit: vec![],
        cuts: vec![],
        tail: Tail::Fixed(*r.pick(&[1_048_576u32, 2_097_152, 3_000_001])),
    };
    let (h, _) = header_offsets(&p);
    add_header_cuts(r, &mut p.reads, &h, 80);
    p
}

fn gen_c17(r: &mut Rng, t: Tier, job: u64) -> Plan {
    if job < if t == Tier::Quick { 6 } else { 200 } {
        return gen_c17_giant(r);
    }
    if job % 50_000 == 49_000 {
        return gen_streamed_volume(r);
    }
    let ns = 1 + r.usize_below(3);
    let mut cmds = Vec::new();
    let mut st: Vec<(u32, usize, Option<Vec<(u8, u8)>>)> = Vec::new();
    for s in 0..ns {
        // (the first id is also the sentinel some connectors use for "the statement prepared
        // last": to this library it is an id like any other)
        let id = [u32::MAX, 6, 0][s];
        let np = 1 + r.usize_below(4);
        st.push((id, np, None));
        cmds.push(Cmd {
            seq: 0,
            kind: CmdKind::Prepare(query_text(r)),
            act: Act::Prepare(PrepAct::Reply {
                id,
                params: (0..np).map(|_| gen_col_text(r)).collect(),
                cols: vec![],
            }),
        });
    }
    let nops = 3 + r.usize_below(16);
    for _ in 0..nops {
        let s = r.usize_below(ns);
        let (id, np, types) = &mut st[s];
        if r.chance(1, 12) {
            // the statement is closed (long data may be pending: it dies with the statement)
            // and a new one is prepared in its place under another id
            cmds.push(Cmd {
                seq: 0,
                kind: CmdKind::Close(*id),
                act: Act::None,
            });
            *id = 100 + r.below(1000) as u32 * 3 + s as u32 % 3;
            *np = 1 + r.usize_below(4);
            *types = None;
            cmds.push(Cmd {
                seq: 0,
                kind: CmdKind::Prepare(query_text(r)),
                act: Act::Prepare(PrepAct::Reply {
                    id: *id,
                    params: (0..*np).map(|_| gen_col_text(r)).collect(),
                    cols: vec![],
                }),
            });
            continue;
        }
        if r.chance(1, 9) {
            // the shim hands the same id out again (same or another parameter count) while long
            // data may be pending: the new statement starts afresh
            if r.coin() {
                *np = 1 + r.usize_below(4);
            }
            *types = None;
            cmds.push(Cmd {
                seq: 0,
                kind: CmdKind::Prepare(query_text(r)),
                act: Act::Prepare(PrepAct::Reply {
                    id: *id,
                    params: (0..*np).map(|_| gen_col_text(r)).collect(),
                    cols: vec![],
                }),
            });
            continue;
        }
        if r.chance(3, 5) {
            let param = if r.chance(1, 10) {
                *np as u16 + r.below(3) as u16
            } else {
                r.below(*np as u64) as u16
            };
            let n = match r.below(8) {
                0 => 0,
                7 => size_small(r),
                _ => size_tiny(r),
            };
            cmds.push(Cmd {
                seq: 0,
                kind: CmdKind::LongData {
                    stmt: *id,
                    param,
                    data: blob_bytes(r, n),
                },
                act: Act::None,
            });
        } else {
            let mut block = gen_exec_block(r, *np, types, false, 60);
            // long-data parameters are bound as blobs by real clients
            if let (Some(b), Some(t)) = (&mut block.bind, types.as_mut()) {
                let _ = (b, t);
            }
            cmds.push(Cmd {
                seq: 0,
                kind: CmdKind::Execute {
                    stmt: *id,
                    flags: 0,
                    iters: 1,
                    block,
                },
                act: Act::Program(simple_ok_program()),
            });
        }
    }
    // every statement is executed twice at the end: the first reveals pending data, the second
    // must see inline values again
    for (id, np, types) in st.iter_mut() {
        for _ in 0..2 {
            let block = gen_exec_block(r, *np, types, false, 30);
            cmds.push(Cmd {
                seq: 0,
                kind: CmdKind::Execute {
                    stmt: *id,
                    flags: 0,
                    iters: 1,
                    block,
                },
                act: Act::Program(simple_ok_program()),
            });
        }
    }
    let mut cmds = cmds;
    sprinkle_pulls(r, &mut cmds, 10);
    finish_plan(r, cmds)
}

pub fn c17() -> Simple {
    Simple {
        id: "C17",
        decided_by: "histories (interleavings of long-data chunks and executions over statements x parameters) against the reference registry",
        rule_text: "one run = 1..3 statements (1..4 parameters) with 3..18 interleaved operations: SEND_LONG_DATA chunks (sizes 0..70000, also for indexes beyond the parameter count) and EXECUTEs, then two executions of every statement; oracle: at each EXECUTE the addressed parameters equal the in-order concatenation of the chunks for that (statement, parameter), other parameters keep their inline values, the next execution sees inline values again, other statements never see the data, no bytes are sent for SEND_LONG_DATA. Distinct = plan signature.",
        quick: 200_000,
        thorough: 6_000_000,
        budget_q: 60,
        budget_t: 900,
        owns: &[
            "param-count",
            "param-type",
            "param-value",
            "callback-args",
            "callback-missing",
            "callback-extra",
            "resp-extra-bytes",
            "resp-malformed",
            "panic",
            "end",
        ],
        gen: gen_c17,
        extra: None,
        assumptions: super::props::COMMON_ASSUME_PUB,
    }
}
