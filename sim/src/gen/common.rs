//! Shared generators: schedules (swarm personalities), sizes, values, columns, programs.

use crate::plan::*;
use crate::rng::Rng;

pub const U24: u64 = 0xFF_FFFF;

// ------------------------------------------------------------------------------------------
// sizes

/// Small-payload size classes with cliffs (section 4 of DESIGN.md); never above ~70 KB.
pub fn size_small(r: &mut Rng) -> usize {
    match r.weighted(&[30, 20, 12, 8, 6, 3, 2]) {
        0 => r.range(0, 16) as usize,
        1 => r.range(0, 200) as usize,
        2 => (248 + r.range(0, 8)) as usize,             // 250/251/252 lenenc cliff
        3 => r.range(253, 1200) as usize,
        4 => (4090 + r.range(0, 12)) as usize,           // 4096 buffer
        5 => (8186 + r.range(0, 12)) as usize,           // 8192 buffer
        _ => (65_530 + r.range(0, 12)) as usize,         // 65535/65536
    }
}

/// Mostly tiny sizes; used where many values are generated per run.
pub fn size_tiny(r: &mut Rng) -> usize {
    match r.weighted(&[60, 25, 10, 4, 1]) {
        0 => r.range(0, 8) as usize,
        1 => r.range(0, 64) as usize,
        2 => (248 + r.range(0, 8)) as usize,
        3 => r.range(253, 600) as usize,
        _ => (65_530 + r.range(0, 12)) as usize,
    }
}

pub fn blob_bytes(r: &mut Rng, n: usize) -> Blob {
    if n > 2048 {
        return Blob::Gen {
            len: n as u32,
            salt: r.next() as u32,
            ascii: false,
        };
    }
    let mut v = r.bytes(n);
    // sprinkle protocol-significant bytes
    if n > 0 && r.chance(1, 3) {
        let specials = [0x00u8, 0xFB, 0xFC, 0xFD, 0xFE, 0xFF, b'\'', b'\\', b'#'];
        for _ in 0..=r.below(3) {
            let i = r.usize_below(n);
            v[i] = *r.pick(&specials);
        }
    }
    Blob::Lit(v)
}

pub fn blob_ascii(r: &mut Rng, n: usize) -> Blob {
    if n > 2048 {
        return Blob::Gen {
            len: n as u32,
            salt: r.next() as u32,
            ascii: true,
        };
    }
    let alphabet = b"abcdefghijklmnopqrstuvwxyzABCDEFGHIJKLMNOPQRSTUVWXYZ0123456789_ ,.*=()'";
    let mut v = Vec::with_capacity(n);
    for _ in 0..n {
        v.push(*r.pick(alphabet));
    }
    Blob::Lit(v)
}

/// UTF-8 text including non-ASCII letters
pub fn blob_utf8(r: &mut Rng, nchars: usize) -> Blob {
    if nchars > 2048 {
        return blob_ascii(r, nchars);
    }
    let pool = ['a', 'Z', '0', '_', '$', 'é', 'ß', 'ж', '中', '🦀', ' ', '#'];
    let mut s = String::new();
    for _ in 0..nchars {
        s.push(*r.pick(&pool));
    }
    Blob::Lit(s.into_bytes())
}

// ------------------------------------------------------------------------------------------
// schedules

pub fn gen_reads(r: &mut Rng) -> ReadSched {
    let tail = match r.weighted(&[18, 14, 14, 14, 10, 10, 10, 10]) {
        0 => Tail::All,
        1 => Tail::Fixed(1),
        2 => Tail::Hash {
            seed: r.next(),
            max: 7,
        },
        3 => Tail::Hash {
            seed: r.next(),
            max: 64,
        },
        4 => Tail::Fixed(4096),
        5 => Tail::Hash {
            seed: r.next(),
            max: 5000,
        },
        6 => {
            let n = 1 + r.usize_below(5);
            Tail::Cycle((0..n).map(|_| 1 + r.below(12) as u32).collect())
        }
        _ => Tail::Fixed(2 + r.below(4) as u32),
    };
    let mut explicit = Vec::new();
    if r.chance(1, 4) {
        for _ in 0..r.below(6) {
            explicit.push(1 + r.below(40) as u32);
        }
    }
    ReadSched {
        explicit,
        cuts: vec![],
        tail,
    }
}

/// add "header splitter" cuts around packet headers / ends of the encoded client stream
pub fn add_header_cuts(r: &mut Rng, reads: &mut ReadSched, hdr_offsets: &[u64], density: u64) {
    for h in hdr_offsets {
        if r.chance(density, 100) {
            for d in [1u64, 2, 3, 4, 5] {
                if r.coin() {
                    reads.cuts.push(h + d);
                }
            }
            if *h > 0 && r.coin() {
                reads.cuts.push(*h - 1);
            }
            if r.coin() {
                reads.cuts.push(*h);
            }
        }
    }
    reads.cuts.sort_unstable();
    reads.cuts.dedup();
}

pub fn gen_arrival(r: &mut Rng) -> Arrival {
    match r.weighted(&[35, 25, 25, 15]) {
        0 => Arrival::lockstep(),
        1 => Arrival::upfront(),
        2 => {
            let n = 1 + r.usize_below(4);
            Arrival {
                batches: (0..n).map(|_| 1 + r.below(5) as u32).collect(),
                with_handshake: r.chance(1, 3),
            }
        }
        _ => Arrival {
            batches: vec![0],
            with_handshake: false,
        },
    }
}

/// benign write perturbations only: short writes and (on plaintext) Interrupted
pub fn gen_writes(r: &mut Rng, eintr: bool) -> WriteSched {
    let accept = match r.weighted(&[40, 15, 15, 15, 15]) {
        0 => vec![0],
        1 => vec![1],
        2 => vec![7],
        3 => {
            let n = 1 + r.usize_below(4);
            (0..n).map(|_| r.below(40) as u32).collect()
        }
        _ => vec![4096],
    };
    let mut eintr_at = Vec::new();
    if eintr && r.chance(1, 3) {
        for _ in 0..1 + r.below(4) {
            eintr_at.push(r.below(60) as u32);
        }
        eintr_at.sort_unstable();
        eintr_at.dedup();
    }
    WriteSched { accept, eintr_at }
}

pub fn gen_handshake(r: &mut Rng) -> Handshake {
    let user = match r.weighted(&[50, 10, 30, 10]) {
        0 => b"jon".to_vec(),
        1 => Vec::new(),
        2 => {
            let n = r.range(1, 24) as usize;
            (0..n).map(|_| 1 + r.below(255) as u8).collect()
        }
        _ => {
            let n = r.range(200, 300) as usize;
            (0..n).map(|_| 1 + r.below(255) as u8).collect()
        }
    };
    let tail = match r.weighted(&[40, 30, 30]) {
        0 => vec![0],
        1 => Vec::new(),
        _ => {
            let n = r.range(1, 60) as usize;
            r.bytes(n)
        }
    };
    if r.chance(1, 8) {
        return Handshake {
            seq: 1,
            body: HsBody::V320 {
                caps: (r.next() as u16) & !(CLIENT_PROTOCOL_41 as u16) & !(CLIENT_SSL as u16),
                maxps: r.below(1 << 24) as u32,
                user,
                tail,
            },
        };
    }
    let caps = if r.coin() {
        0x000F_A685 & !CLIENT_SSL
    } else {
        ((r.next() as u32) | CLIENT_PROTOCOL_41) & !CLIENT_SSL
    };
    Handshake {
        seq: 1,
        body: HsBody::V41 {
            caps,
            maxps: match r.below(4) {
                // the client's max_packet_size says what the CLIENT will send; small values are
                // legal and must not change how the server frames its output
                0 => *r.pick(&[0u32, 1, 255, 4096, 65_535, 65_536, 0xFF_FFFE, 0xFF_FFFF, 1 << 24, u32::MAX]),
                _ => r.next() as u32,
            },
            // the client's character set: the usual utf8 ones, the latin1 family, anything
            collation: match r.below(4) {
                0 => *r.pick(&[33u8, 45, 46, 224, 255, 83]),
                1 => *r.pick(&[8u8, 5, 15, 31, 47, 48, 49, 94, 1, 63]),
                _ => r.next() as u8,
            },
            user,
            tail,
            // reserved bytes: zeros as a rule; MariaDB-style extended capabilities in the last
            // four; anything
            reserved: match r.below(6) {
                0 => {
                    let mut v = vec![0u8; 19];
                    v.extend_from_slice(&(r.next() as u32).to_le_bytes());
                    v
                }
                1 => r.bytes(23),
                _ => vec![],
            },
        },
    }
}

// ------------------------------------------------------------------------------------------
// values

pub fn int_edge(r: &mut Rng, lo: i128, hi: i128) -> i128 {
    let pickv = match r.weighted(&[12, 12, 10, 10, 26, 30, 14]) {
        0 => lo,
        1 => hi,
        2 => 0,
        3 => *r.pick(&[-1i128, 1, -2, 2, 127, 128, 255, 256, -128, -129]),
        6 => {
            // decimal cliffs: 10^k - 1, 10^k, 10^k + 1 and their neighbours with all-nine or
            // one-zero digit strings (where the number of decimal digits changes)
            let k = 1 + r.below(19) as u32;
            let p = 10i128.pow(k);
            let d = *r.pick(&[-2i128, -1, -1, 0, 1]);
            let s = if r.coin() { 1 } else { -1 };
            s * (p + d)
        }
        4 => {
            let k = r.below(64) as u32;
            let p = 1i128 << k;
            let d = *r.pick(&[-1i128, 0, 1]);
            let s = if r.coin() { 1 } else { -1 };
            s * p + d
        }
        _ => {
            let span = (hi - lo) as u128;
            lo + ((r.next() as u128 | ((r.next() as u128) << 64)) % (span + 1)) as i128
        }
    };
    pickv.clamp(lo, hi)
}

pub fn f32_bits(r: &mut Rng) -> u32 {
    loop {
        let b = match r.weighted(&[40, 20, 40]) {
            0 => r.next() as u32,
            1 => *r.pick(&[
                0.0f32.to_bits(),
                (-0.0f32).to_bits(),
                f32::MAX.to_bits(),
                f32::MIN.to_bits(),
                f32::MIN_POSITIVE.to_bits(),
                1u32, // smallest subnormal
                f32::EPSILON.to_bits(),
                0.1f32.to_bits(),
                16_777_216.0f32.to_bits(),
                16_777_217.0f32.to_bits(),
                1e23f32.to_bits(),
                3.402_823e38f32.to_bits(),
            ]),
            _ => ((r.irange(-1_000_000, 1_000_000) as f32) / (*r.pick(&[1.0f32, 10.0, 100.0, 3.0]))).to_bits(),
        };
        if f32::from_bits(b).is_finite() {
            return b;
        }
    }
}

pub fn f64_bits(r: &mut Rng) -> u64 {
    loop {
        let b = match r.weighted(&[40, 20, 40]) {
            0 => r.next(),
            1 => *r.pick(&[
                0.0f64.to_bits(),
                (-0.0f64).to_bits(),
                f64::MAX.to_bits(),
                f64::MIN.to_bits(),
                f64::MIN_POSITIVE.to_bits(),
                1u64,
                f64::EPSILON.to_bits(),
                0.1f64.to_bits(),
                9_007_199_254_740_992.0f64.to_bits(),
                9_007_199_254_740_993.0f64.to_bits(),
                1e23f64.to_bits(),
                5e-324f64.to_bits(),
                2.225_073_858_507_201e-308f64.to_bits(),
            ]),
            _ => ((r.irange(-1_000_000_000, 1_000_000_000) as f64) / (*r.pick(&[1.0f64, 10.0, 1000.0, 7.0]))).to_bits(),
        };
        if f64::from_bits(b).is_finite() {
            return b;
        }
    }
}

pub fn gen_date(r: &mut Rng) -> (i32, u32, u32) {
    let y = match r.weighted(&[10, 10, 20, 60]) {
        0 => 0,
        1 => 9999,
        2 => *r.pick(&[1, 1000, 1900, 1970, 2000, 2024, 2100, 4, 400]),
        _ => r.range(0, 9999) as i32,
    };
    if r.chance(1, 8) {
        // leap day when the year has one
        let leap = (y % 4 == 0 && y % 100 != 0) || y % 400 == 0;
        if leap {
            return (y, 2, 29);
        }
    }
    let m = r.range(1, 12) as u32;
    let dim = match m {
        1 | 3 | 5 | 7 | 8 | 10 | 12 => 31,
        4 | 6 | 9 | 11 => 30,
        _ => 28,
    };
    let d = if r.chance(1, 4) { dim } else { r.range(1, dim as u64) as u32 };
    (y, m, d)
}

pub fn gen_us(r: &mut Rng) -> u32 {
    match r.weighted(&[35, 15, 50]) {
        0 => 0,
        1 => *r.pick(&[1, 999_999, 100_000, 10, 500_000]),
        _ => r.range(1, 999_999) as u32,
    }
}

pub fn gen_hms(r: &mut Rng) -> (u32, u32, u32) {
    match r.weighted(&[20, 20, 60]) {
        0 => (0, 0, 0),
        1 => (23, 59, 59),
        _ => (r.below(24) as u32, r.below(60) as u32, r.below(60) as u32),
    }
}

pub fn gen_dur(r: &mut Rng) -> (u64, u32) {
    let secs = match r.weighted(&[20, 15, 15, 50]) {
        0 => 0,
        1 => 3_020_399, // 838:59:59
        2 => *r.pick(&[1, 59, 60, 3599, 3600, 86_399, 86_400, 86_401]),
        _ => r.range(0, 3_020_399),
    };
    (secs, gen_us(r))
}

pub fn gen_myc_text(r: &mut Rng) -> MycV {
    match r.below(8) {
        0 => MycV::Null,
        1 => {
            let n = size_tiny(r);
            MycV::Bytes(blob_bytes(r, n))
        }
        2 => MycV::Int(int_edge(r, i64::MIN as i128, i64::MAX as i128) as i64),
        3 => MycV::UInt(int_edge(r, 0, u64::MAX as i128) as u64),
        4 => MycV::Float(f32_bits(r)),
        5 => MycV::Double(f64_bits(r)),
        6 => {
            let (y, m, d) = gen_date(r);
            let (h, mi, s) = gen_hms(r);
            MycV::Date(y as u16, m as u8, d as u8, h as u8, mi as u8, s as u8, gen_us(r))
        }
        _ => {
            let (secs, us) = gen_dur(r);
            let d = secs / 86_400;
            MycV::Time(
                false,
                d as u32,
                ((secs % 86_400) / 3600) as u8,
                ((secs % 3600) / 60) as u8,
                (secs % 60) as u8,
                us,
            )
        }
    }
}

/// any value implementing the value-encoding trait (text protocol carries no column types)
pub fn gen_cell_text(r: &mut Rng, big_ok: bool) -> Cell {
    let mut sz = |r: &mut Rng| if big_ok { size_small(r) } else { size_tiny(r) };
    match r.below(24) {
        0 => Cell::U8(int_edge(r, 0, 255) as u8),
        1 => Cell::I8(int_edge(r, -128, 127) as i8),
        2 => Cell::U16(int_edge(r, 0, 65_535) as u16),
        3 => Cell::I16(int_edge(r, -32_768, 32_767) as i16),
        4 => Cell::U32(int_edge(r, 0, u32::MAX as i128) as u32),
        5 => Cell::I32(int_edge(r, i32::MIN as i128, i32::MAX as i128) as i32),
        6 => Cell::U64(int_edge(r, 0, u64::MAX as i128) as u64),
        7 => Cell::I64(int_edge(r, i64::MIN as i128, i64::MAX as i128) as i64),
        8 => Cell::Usize(int_edge(r, 0, u64::MAX as i128) as u64),
        9 => Cell::Isize(int_edge(r, i64::MIN as i128, i64::MAX as i128) as i64),
        10 => Cell::F32(f32_bits(r)),
        11 => Cell::F64(f64_bits(r)),
        12 => {
            let n = sz(r);
            Cell::Bytes(blob_bytes(r, n))
        }
        13 => {
            let n = sz(r);
            Cell::VecBytes(blob_bytes(r, n))
        }
        14 => match r.below(4) {
            0 => Cell::Str(Blob::lit(b"NULL")),
            1 => Cell::Str(Blob::lit(b"")),
            _ => {
                let n = size_tiny(r);
                Cell::Str(blob_utf8(r, n))
            }
        },
        15 => {
            let n = size_tiny(r);
            Cell::String(blob_utf8(r, n))
        }
        16 => {
            let (y, m, d) = gen_date(r);
            Cell::Date(y, m, d)
        }
        17 => {
            let (y, m, d) = gen_date(r);
            let (h, mi, s) = gen_hms(r);
            Cell::DateTime(y, m, d, h, mi, s, gen_us(r))
        }
        18 => {
            let (s, us) = gen_dur(r);
            Cell::Dur(s, us)
        }
        19 => Cell::Null(r.below(7) as u8),
        20 => match r.below(4) {
            0 => Cell::Ref(Box::new(Cell::Null(1))),
            1 => Cell::Ref(Box::new(Cell::I64(int_edge(r, i64::MIN as i128, i64::MAX as i128) as i64))),
            2 => Cell::Ref(Box::new(Cell::Some(Box::new(Cell::I64(r.next() as i64))))),
            _ => Cell::Null(r.below(7) as u8),
        },
        21 => {
            let inner = loop {
                let c = gen_cell_text(r, false);
                if !matches!(c, Cell::Null(_) | Cell::Some(_) | Cell::Ref(_) | Cell::Myc(MycV::Null)) {
                    break c;
                }
            };
            Cell::Some(Box::new(inner))
        }
        _ => Cell::Myc(gen_myc_text(r)),
    }
}

pub const BIN_TYPES: &[u8] = &[
    0x01, 0x02, 0x0d, 0x03, 0x09, 0x08, 0x04, 0x05, 0x0a, 0x0c, 0x07, 0x0b, 0xfe, 0xfd, 0xfc, 0xf9, 0xfa,
    0xfb, 0xf8, 0xf7, 0x00, 0x0f, 0x10, 0xf6, 0xff, 0xf5,
];

/// every column type code the library's `ColumnType` can represent
pub fn all_types() -> &'static [u8] {
    use std::convert::TryFrom;
    static T: std::sync::OnceLock<Vec<u8>> = std::sync::OnceLock::new();
    T.get_or_init(|| {
        (0u16..=255)
            .map(|t| t as u8)
            .filter(|t| msql_srv::ColumnType::try_from(*t).is_ok())
            .collect()
    })
}

pub fn int_range(coltype: u8, unsigned: bool) -> Option<(i128, i128)> {
    let bits = match coltype {
        0x01 => 8,
        0x02 | 0x0d => 16,
        0x03 | 0x09 => 32,
        0x08 => 64,
        _ => return None,
    };
    Some(if unsigned {
        (0, (1i128 << bits) - 1)
    } else {
        (-(1i128 << (bits - 1)), (1i128 << (bits - 1)) - 1)
    })
}

/// A non-NULL cell of a Rust type whose whole range the column can carry (natural pairs and
/// lossless widenings), i.e. a pair every faithful tree must accept.
pub fn gen_cell_for_col(r: &mut Rng, coltype: u8, flags: u16, big_ok: bool) -> Cell {
    let unsigned = flags & 0x20 != 0;
    if let Some((lo, hi)) = int_range(coltype, unsigned) {
        let bits = match coltype {
            0x01 => 8,
            0x02 | 0x0d => 16,
            0x03 | 0x09 => 32,
            _ => 64,
        };
        // candidate Rust types whose range is contained in the column's
        let mut cands: Vec<u8> = Vec::new(); // 0:u8 1:i8 2:u16 3:i16 4:u32 5:i32 6:u64 7:i64 8:myc int 9: myc uint
        if unsigned {
            cands.push(0);
            if bits >= 16 {
                cands.push(2);
            }
            if bits >= 32 {
                cands.push(4);
            }
            if bits >= 64 {
                cands.push(6);
                cands.push(9);
            }
            if bits == 8 {
                cands.retain(|c| *c == 0);
            }
        } else {
            cands.push(1);
            if bits >= 16 {
                cands.push(3);
                cands.push(0);
            }
            if bits >= 32 {
                cands.push(5);
                cands.push(2);
            }
            if bits >= 64 {
                cands.push(7);
                cands.push(4);
            }
        }
        // prefer the natural type
        let natural = match (bits, unsigned) {
            (8, true) => 0,
            (8, false) => 1,
            (16, true) => 2,
            (16, false) => 3,
            (32, true) => 4,
            (32, false) => 5,
            (64, true) => 6,
            _ => 7,
        };
        let t = if r.chance(2, 3) { natural } else { *r.pick(&cands) };
        let _ = (lo, hi);
        return match t {
            0 => Cell::U8(int_edge(r, 0, 255) as u8),
            1 => Cell::I8(int_edge(r, -128, 127) as i8),
            2 => Cell::U16(int_edge(r, 0, 65_535) as u16),
            3 => Cell::I16(int_edge(r, -32_768, 32_767) as i16),
            4 => Cell::U32(int_edge(r, 0, u32::MAX as i128) as u32),
            5 => Cell::I32(int_edge(r, i32::MIN as i128, i32::MAX as i128) as i32),
            6 => Cell::U64(int_edge(r, 0, u64::MAX as i128) as u64),
            7 => Cell::I64(int_edge(r, i64::MIN as i128, i64::MAX as i128) as i64),
            _ => Cell::Myc(MycV::UInt(int_edge(r, 0, u64::MAX as i128) as u64)),
        };
    }
    match coltype {
        0x04 => {
            if r.chance(1, 5) {
                Cell::Myc(MycV::Float(f32_bits(r)))
            } else {
                Cell::F32(f32_bits(r))
            }
        }
        0x05 => match r.below(6) {
            0 => Cell::F32(f32_bits(r)),
            1 => Cell::Myc(MycV::Double(f64_bits(r))),
            2 => Cell::Myc(MycV::Float(f32_bits(r))),
            _ => Cell::F64(f64_bits(r)),
        },
        0x0a => {
            let (y, m, d) = gen_date(r);
            Cell::Date(y, m, d)
        }
        0x0c | 0x07 => {
            let (y, m, d) = gen_date(r);
            let (h, mi, s) = gen_hms(r);
            let us = gen_us(r);
            if r.chance(1, 5) {
                Cell::Myc(MycV::Date(y as u16, m as u8, d as u8, h as u8, mi as u8, s as u8, us))
            } else {
                Cell::DateTime(y, m, d, h, mi, s, us)
            }
        }
        0x0b => {
            let (secs, us) = gen_dur(r);
            if r.chance(1, 5) {
                Cell::Myc(MycV::Time(
                    false,
                    (secs / 86_400) as u32,
                    ((secs % 86_400) / 3600) as u8,
                    ((secs % 3600) / 60) as u8,
                    (secs % 60) as u8,
                    us,
                ))
            } else {
                Cell::Dur(secs, us)
            }
        }
        _ => {
            let n = if big_ok { size_small(r) } else { size_tiny(r) };
            match r.below(5) {
                0 => Cell::Bytes(blob_bytes(r, n)),
                1 => Cell::VecBytes(blob_bytes(r, n)),
                2 => Cell::Str(blob_utf8(r, n.min(300))),
                3 => Cell::String(blob_utf8(r, n.min(300))),
                _ => Cell::Myc(MycV::Bytes(blob_bytes(r, n))),
            }
        }
    }
}

pub fn gen_cell_bin(r: &mut Rng, col: &ColSpec, big_ok: bool) -> Cell {
    let not_null = col.flags & 0x01 != 0;
    if !not_null && r.chance(1, 6) {
        return match r.below(8) {
            0 | 1 => Cell::Myc(MycV::Null),
            2 => Cell::Ref(Box::new(Cell::Null(1))),
            _ => Cell::Null(r.below(6) as u8),
        };
    }
    let c = gen_cell_for_col(r, col.coltype, col.flags, big_ok);
    if r.chance(1, 10) && !matches!(c, Cell::Myc(_) | Cell::Ref(_)) {
        // Some(..) normalises &str/&[u8] to owned types in the shim
        return Cell::Some(Box::new(c));
    }
    c
}

pub fn is_null_cell(c: &Cell) -> bool {
    match c {
        Cell::Null(_) | Cell::Myc(MycV::Null) => true,
        Cell::Ref(inner) => !matches!(**inner, Cell::I64(_) | Cell::VecBytes(_))
            && !matches!(&**inner, Cell::Some(x) if matches!(**x, Cell::I64(_))),
        _ => false,
    }
}

pub fn gen_name(r: &mut Rng) -> Blob {
    match r.weighted(&[50, 20, 15, 10, 5]) {
        0 => {
            let n = 1 + r.usize_below(10);
            blob_ascii(r, n)
        }
        1 => Blob::lit(b""),
        2 => {
            let n = 1 + r.usize_below(20);
            blob_utf8(r, n)
        }
        3 => {
            let n = 248 + r.usize_below(8);
            blob_ascii(r, n)
        }
        _ => {
            let n = r.range(253, 700) as usize;
            blob_ascii(r, n)
        }
    }
}

pub fn gen_col_text(r: &mut Rng) -> ColSpec {
    ColSpec {
        table: gen_name(r),
        name: gen_name(r),
        coltype: *r.pick(all_types()),
        flags: if r.coin() { 0 } else { r.next() as u16 },
    }
}

/// The columns a statement announces when it is prepared, given those its execution will
/// return: the same as a rule, but the two are separate statements of the shim (many shims
/// announce nothing at PREPARE time, others announce what they guess) -- one time in four the
/// announced list has another length, on the other side of a NULL-bitmap byte boundary.
pub fn announce_cols(r: &mut Rng, cols: &[ColSpec]) -> Vec<ColSpec> {
    if !r.chance(1, 4) {
        return cols.to_vec();
    }
    let have = (cols.len() + 9) / 8;
    let mut n = *r.pick(&[0usize, 0, 1, 6, 7, 8, 14, 15, 16, 22, 23, 30]);
    if (n + 9) / 8 == have {
        n = if have == 1 { *r.pick(&[7usize, 8, 15, 23]) } else { *r.pick(&[0usize, 0, 3, 6]) };
    }
    let mut out: Vec<ColSpec> = cols.iter().take(n).cloned().collect();
    while out.len() < n {
        out.push(gen_col_bin(r));
    }
    out
}

pub fn gen_col_bin(r: &mut Rng) -> ColSpec {
    let mut flags = 0u16;
    if r.chance(1, 3) {
        flags |= 0x20;
    }
    if r.chance(1, 4) {
        flags |= 0x01;
    }
    if r.chance(1, 6) {
        flags |= (r.next() as u16) & !0x21;
    }
    ColSpec {
        table: gen_name(r),
        name: gen_name(r),
        coltype: *r.pick(BIN_TYPES),
        flags,
    }
}

pub fn gen_errkind(r: &mut Rng) -> u16 {
    let k = crate::kinds::KINDS;
    k[r.usize_below(k.len())].1
}

pub fn gen_errmsg(r: &mut Rng) -> Blob {
    if r.chance(1, 6) {
        // valid UTF-8 with characters beyond ASCII (2-, 3- and 4-byte sequences)
        let n = 1 + r.usize_below(30);
        return blob_utf8(r, n);
    }
    match r.weighted(&[25, 40, 15, 15, 5]) {
        0 => Blob::lit(b""),
        1 => {
            let n = 1 + r.usize_below(60);
            blob_ascii(r, n)
        }
        2 => {
            let n = 1 + r.usize_below(40);
            let mut v = r.bytes(n);
            v[0] = *r.pick(&[b'#', 0, 0xFF, b'a']);
            Blob::Lit(v)
        }
        3 => {
            let n = size_small(r);
            blob_bytes(r, n)
        }
        _ => Blob::lit(b"#HY000 looks like a marker"),
    }
}

#[derive(Clone, Debug)]
pub struct ProgOpts {
    pub binary: bool,
    pub max_units: usize,
    pub max_cols: usize,
    pub max_rows: usize,
    pub allow_drop: bool,
    pub allow_err: bool,
    pub big_ok: bool,
    pub zero_cols: bool,
}

impl ProgOpts {
    pub fn std(binary: bool) -> ProgOpts {
        ProgOpts {
            binary,
            max_units: 5,
            max_cols: 9,
            max_rows: 5,
            allow_drop: true,
            allow_err: true,
            big_ok: false,
            zero_cols: true,
        }
    }
}

pub fn gen_rows_unit(r: &mut Rng, o: &ProgOpts, last: bool, implicit_end: bool) -> RowsUnit {
    let ncols = if o.zero_cols && r.chance(1, 8) {
        0
    } else {
        1 + r.usize_below(o.max_cols.max(1))
    };
    let cols: Vec<ColSpec> = (0..ncols)
        .map(|_| if o.binary { gen_col_bin(r) } else { gen_col_text(r) })
        .collect();
    let nrows = r.usize_below(o.max_rows + 1);
    // a zero-column resultset may still have values "written" to it (ignored by the library)
    let ghost_cells = if ncols == 0 && r.coin() { 1 + r.usize_below(2) } else { 0 };
    let rows: Vec<Vec<Cell>> = (0..nrows)
        .map(|_| {
            if ghost_cells > 0 {
                return (0..ghost_cells).map(|_| gen_cell_text(r, false)).collect();
            }
            cols.iter()
                .map(|c| {
                    if o.binary {
                        gen_cell_bin(r, c, o.big_ok)
                    } else {
                        gen_cell_text(r, o.big_ok)
                    }
                })
                .collect()
        })
        .collect();
    let close = if last && implicit_end {
        match r.weighted(&[40, if o.allow_drop { 30 } else { 0 }, if o.allow_err { 30 } else { 0 }]) {
            0 => Close::Finish,
            1 => Close::Drop,
            _ => Close::FinishError {
                kind: gen_errkind(r),
                msg: gen_errmsg(r),
            },
        }
    } else {
        Close::FinishOne
    };
    RowsUnit {
        cols,
        rows,
        write_row: r.coin(),
        last_row_ended: r.chance(2, 3),
        close,
        contra: None,
        recover: None,
    }
}

pub fn gen_u64_cliff(r: &mut Rng) -> u64 {
    match r.weighted(&[20, 20, 15, 15, 10, 20]) {
        0 => r.below(4),
        1 => 248 + r.below(8),
        2 => 65_533 + r.below(6),
        3 => (1 << 24) - 3 + r.below(6),
        4 => u64::MAX - r.below(3),
        _ => r.next() >> r.below(64),
    }
}

pub fn gen_program(r: &mut Rng, o: &ProgOpts) -> Program {
    let n = 1 + r.usize_below(o.max_units.max(1));
    // how does the program end?
    let end = match r.weighted(&[45, 25, if o.allow_drop { 15 } else { 0 }, if o.allow_err { 15 } else { 0 }]) {
        0 => End::Implicit,
        1 => End::NoMoreResults,
        2 => End::DropWriter,
        _ => End::Error {
            kind: gen_errkind(r),
            msg: gen_errmsg(r),
        },
    };
    let implicit = end == End::Implicit;
    let mut units = Vec::new();
    for i in 0..n {
        let last = i + 1 == n;
        if r.chance(1, 3) {
            units.push(Unit::Count {
                affected: gen_u64_cliff(r),
                last_id: gen_u64_cliff(r),
            });
        } else {
            units.push(Unit::Rows(gen_rows_unit(r, o, last, implicit)));
        }
    }
    // sometimes two consecutive resultsets share a schema: the second one's columns are a
    // prefix of the first one's, or the other way round (same values, fewer columns)
    if r.chance(1, 6) {
        for i in 0..units.len().saturating_sub(1) {
            let (a, b) = units.split_at_mut(i + 1);
            if let (Unit::Rows(x), Unit::Rows(y)) = (&mut a[i], &mut b[0]) {
                if x.cols.len() >= 2 && x.contra.is_none() && y.contra.is_none() && !x.rows.is_empty() {
                    let k = 1 + r.usize_below(x.cols.len() - 1);
                    let (long, short) = if r.coin() { (x, y) } else { (y, x) };
                    // make `long` hold the full schema and `short` its first k columns
                    if long.cols.len() < 2 {
                        continue;
                    }
                    let k = k.min(long.cols.len() - 1).max(1);
                    short.cols = long.cols[..k].to_vec();
                    let keep = short.rows.len().max(1).min(long.rows.len().max(1));
                    short.rows = long.rows.iter().take(keep).map(|rw| rw[..k.min(rw.len())].to_vec()).collect();
                    break;
                }
            }
        }
    }
    // an Implicit end needs a terminal close on a trailing Rows unit; FinishOne there would
    // leave the writer to be dropped, which is the DropWriter case
    let mut end = end;
    if implicit {
        if let Some(Unit::Rows(ru)) = units.last() {
            if ru.close == Close::FinishOne {
                end = End::NoMoreResults;
            }
        }
    }
    Program {
        units,
        end,
        ret_err: None,
        probe_cells: false,
        pull_params: None,
        pull_skip: 0,
        mixed_rows: if r.chance(1, 8) { 1 + r.below(3) as u8 } else { 0 },
        ret_panic: false,
    }
}

pub fn simple_ok_program() -> Program {
    Program {
        units: vec![Unit::Count {
            affected: 0,
            last_id: 0,
        }],
        end: End::Implicit,
        ret_err: None,
        probe_cells: false,
        pull_params: None,
        pull_skip: 0,
        mixed_rows: 0,
        ret_panic: false,
    }
}

pub fn query_text(r: &mut Rng) -> Blob {
    if r.chance(2, 5) {
        // realistic SQL with multi-byte characters at every offset (valid UTF-8 throughout)
        let heads: &[&str] = &[
            "SELECT '", "SELECT ", "select ", "do ", "DO ", "SET @a = '", "INSERT INTO t VALUES ('", "S", "", "US", "use",
            "SELECT @", "SELEC", "SELECT  ", "usé ", "UPDATE t SET c = '",
        ];
        let pool = ['é', '€', 'ñ', 'ж', '中', '🦀', 'a', '1', ' ', '\'', ',', 'ß'];
        // statements tagged by connectors and ORMs: a leading comment (or whitespace) in front
        // of text that would be answered by the library or routed to on_init if it stood alone
        let tags: &[&str] = &[
            "/* mysql-connector-j-8.0.33 */", "/* app:web,ctl:users */ ", "/**/", "/* */  ", "-- x\n", "#x\n", " ", "\t", "\n", "(",
            "/*! 40101 */", "/*+ MAX_EXECUTION_TIME(5) */ ",
        ];
        let tagged: &[&str] = &["SELECT @@max_allowed_packet", "select @@version_comment limit 1", "USE `shop`;", "use db", "SELECT 1", "SELECT @@socket"];
        // statements that clients and connectors send by themselves (after connecting, after a
        // database switch, when pooling): none of them is the library's to answer
        let housekeeping: &[&str] = &[
            "SELECT DATABASE()", "select database()", "SELECT DATABASE();", "SELECT USER()", "SELECT CURRENT_USER()", "SELECT VERSION()",
            "SELECT CONNECTION_ID()", "SHOW WARNINGS", "SHOW DATABASES", "SHOW TABLES", "SET NAMES utf8mb4", "SET autocommit=1", "SET NAMES 'utf8'",
            "BEGIN", "COMMIT", "ROLLBACK", "START TRANSACTION", "SELECT 1", "select 1", "DO 1", "KILL QUERY 1", "SET character_set_results = NULL",
            "SHOW VARIABLES LIKE 'max_allowed_packet'", "SELECT LAST_INSERT_ID()", "SELECT ROW_COUNT()", "SELECT FOUND_ROWS()", "PING", "select $$",
        ];
        if r.chance(1, 6) {
            let v = r.pick(housekeeping).as_bytes().to_vec();
            if crate::model::route_query(&v) == crate::model::QRoute::Query {
                return Blob::Lit(v);
            }
        }
        if r.chance(1, 5) {
            let mut t = String::from(*r.pick(tags));
            t.push_str(*r.pick(tagged));
            let v = t.into_bytes();
            if crate::model::route_query(&v) == crate::model::QRoute::Query {
                return Blob::Lit(v);
            }
        }
        let mut t = String::from(*r.pick(heads));
        for _ in 0..r.below(12) {
            t.push(*r.pick(&pool));
        }
        let v = t.into_bytes();
        if !v.is_empty() && crate::model::route_query(&v) == crate::model::QRoute::Query {
            return Blob::Lit(v);
        }
    }
    let n = 1 + r.usize_below(40);
    let mut v = b"q".to_vec();
    v.extend(blob_ascii(r, n).to_vec());
    Blob::Lit(v)
}

/// offsets of all packet headers in the encoded client stream of a plan
pub fn header_offsets(plan: &Plan) -> (Vec<u64>, u64) {
    let model = crate::model::build(plan);
    let w = crate::stream::World::new(plan, &model);
    let b = &w.cbytes;
    let mut offs = Vec::new();
    let mut p = 0usize;
    while p + 4 <= b.len() {
        offs.push(p as u64);
        let n = b[p] as usize | (b[p + 1] as usize) << 8 | (b[p + 2] as usize) << 16;
        p += 4 + n;
    }
    (offs, b.len() as u64)
}
