//! Conversation generator: command sequences that are valid from the client's point of view
//! (statement registry tracked client-side), with knobs per property.

use super::common::*;
use crate::plan::*;
use crate::rng::Rng;
use std::collections::BTreeMap;

pub const PARAM_TYPES: &[u8] = &[
    0x01, 0x02, 0x0d, 0x03, 0x09, 0x08, 0x04, 0x05, 0x0a, 0x0c, 0x07, 0x0b, 0xfe, 0xfd, 0xfc, 0xf9, 0xfa,
    0xfb, 0xf8, 0xf7, 0x00, 0x0f, 0x10, 0xf6, 0xff, 0xf5, 0x06,
];

pub fn gen_bind(r: &mut Rng) -> (u8, u8) {
    let t = *r.pick(PARAM_TYPES);
    let f = if r.chance(1, 3) { 0x80 } else { 0 } | if r.chance(1, 10) { r.below(0x80) as u8 } else { 0 };
    (t, f)
}

fn temporal_body(r: &mut Rng, ty: u8, valid_only: bool) -> Vec<u8> {
    match ty {
        0x0a => {
            if r.chance(1, 5) {
                return vec![];
            }
            let (y, m, d) = gen_date(r);
            let mut v = (y as u16).to_le_bytes().to_vec();
            v.push(m as u8);
            v.push(d as u8);
            v
        }
        0x0b => {
            let form = r.below(3);
            if form == 0 {
                return vec![];
            }
            let (secs, us) = gen_dur(r);
            let days = (secs / 86_400) as u32;
            let mut v = vec![if !valid_only && r.chance(1, 10) { 1 } else { 0 }];
            v.extend_from_slice(&days.to_le_bytes());
            v.push(((secs % 86_400) / 3600) as u8);
            v.push(((secs % 3600) / 60) as u8);
            v.push((secs % 60) as u8);
            if form == 2 {
                v.extend_from_slice(&gen_us(r).to_le_bytes());
            }
            v
        }
        _ => {
            let form = r.below(4);
            if form == 0 {
                return vec![];
            }
            let (y, m, d) = gen_date(r);
            let mut v = (y as u16).to_le_bytes().to_vec();
            v.push(m as u8);
            v.push(d as u8);
            if form >= 2 {
                let (h, mi, s) = gen_hms(r);
                v.push(h as u8);
                v.push(mi as u8);
                v.push(s as u8);
            }
            if form == 3 {
                v.extend_from_slice(&gen_us(r).to_le_bytes());
            }
            v
        }
    }
}

pub fn gen_pval(r: &mut Rng, ty: u8, flags: u8, big_ok: bool) -> PVal {
    if r.chance(1, 8) || ty == 0x06 {
        return PVal::Null;
    }
    let unsigned = flags & 0x80 != 0;
    if let Some((lo, hi)) = int_range(ty, unsigned) {
        let v = int_edge(r, lo, hi);
        return PVal::Int(v as i64); // two's complement truncation for u64 > i64::MAX
    }
    match ty {
        0x04 => PVal::F32(f32_bits(r)),
        0x05 => PVal::F64(f64_bits(r)),
        0x0a | 0x0b | 0x0c | 0x07 => PVal::Temporal(temporal_body(r, ty, true)),
        _ => {
            let n = if big_ok { size_small(r) } else { size_tiny(r) };
            let form = if r.chance(1, 6) { *r.pick(&[3u8, 4, 9]) } else { 0 };
            let data = if r.chance(1, 3) {
                blob_utf8(r, n.min(200))
            } else {
                blob_bytes(r, n)
            };
            PVal::Bytes { data, form }
        }
    }
}

#[derive(Clone, Debug)]
pub struct ConvOpts {
    pub max_cmds: usize,
    /// weights: query, use, init_db, builtin, ping, field_list, prepare, execute, long_data, close
    pub w: [u32; 10],
    pub prog_text: ProgOpts,
    pub prog_bin: ProgOpts,
    pub sentinel_pings: bool,
    pub quit_at_end: u32, // percent
    pub max_params: usize,
    pub random_seq: bool,
    pub id_pool: Vec<u32>,
    pub prepare_errors: bool,
    pub big_ok: bool,
    pub simple_programs: bool,
    pub init_errors: bool,
}

impl ConvOpts {
    pub fn std() -> ConvOpts {
        ConvOpts {
            max_cmds: 12,
            w: [30, 6, 6, 6, 8, 3, 12, 18, 6, 5],
            prog_text: ProgOpts::std(false),
            prog_bin: ProgOpts::std(true),
            sentinel_pings: false,
            quit_at_end: 30,
            max_params: 5,
            random_seq: false,
            id_pool: vec![1, 2, 3, 0, u32::MAX, 7],
            prepare_errors: true,
            big_ok: false,
            simple_programs: false,
            init_errors: true,
        }
    }
}

#[derive(Clone, Debug, Default)]
pub struct Reg {
    /// id -> (param count, bound types if any)
    pub stmts: BTreeMap<u32, (usize, Option<Vec<(u8, u8)>>)>,
}

pub fn gen_seq(r: &mut Rng, random: bool) -> u8 {
    if !random {
        return 0;
    }
    match r.weighted(&[40, 10, 10, 25, 15]) {
        0 => 0,
        1 => 1,
        2 => 127,
        3 => 250 + r.below(6) as u8,
        _ => r.next() as u8,
    }
}

pub fn gen_use_text(r: &mut Rng) -> Vec<u8> {
    // spellings clients emit
    let mut v = if r.coin() { b"USE".to_vec() } else { b"use".to_vec() };
    v.push(b' ');
    for _ in 0..r.below(3) {
        v.push(b' ');
    }
    let n = 1 + r.usize_below(12);
    let pool = ['a', 'B', '0', '_', '$', 'é', 'ж', 'x', 'y', 'z'];
    let mut name = String::new();
    for _ in 0..n {
        name.push(*r.pick(&pool));
    }
    if r.coin() {
        v.push(b'`');
        v.extend_from_slice(name.as_bytes());
        v.push(b'`');
    } else {
        v.extend_from_slice(name.as_bytes());
    }
    if r.coin() {
        v.push(b';');
    }
    for _ in 0..r.below(3) {
        v.push(*r.pick(&[b' ', b' ', b'\n', b'\t']));
    }
    v
}

pub fn gen_init_act(r: &mut Rng, errors: bool) -> Act {
    if errors && r.chance(1, 3) {
        Act::Init(InitAct::Error {
            kind: gen_errkind(r),
            msg: gen_errmsg(r),
        })
    } else {
        Act::Init(InitAct::Ok)
    }
}

pub fn gen_exec_block(r: &mut Rng, nparams: usize, types: &mut Option<Vec<(u8, u8)>>, big_ok: bool, rebind_pct: u64) -> ParamBlock {
    let rebind = types.is_none() || r.chance(rebind_pct, 100);
    let bind = if rebind && nparams > 0 {
        let t: Vec<(u8, u8)> = (0..nparams).map(|_| gen_bind(r)).collect();
        *types = Some(t.clone());
        Some(t)
    } else {
        None
    };
    let values = (0..nparams)
        .map(|i| {
            let (t, f) = types.as_ref().map(|t| t[i]).unwrap_or((0xfd, 0));
            gen_pval(r, t, f, big_ok)
        })
        .collect();
    ParamBlock {
        bind,
        values,
        raw: None,
                    stale_types: None,
    }
}

/// A conversation. Every command is legal from the client's point of view.
pub fn gen_conv(r: &mut Rng, o: &ConvOpts) -> Vec<Cmd> {
    let n = 1 + r.usize_below(o.max_cmds.max(1));
    let mut reg = Reg::default();
    let mut cmds = Vec::new();
    let mut guard = 0;
    while cmds.len() < n && guard < n * 8 {
        guard += 1;
        let seq = gen_seq(r, o.random_seq);
        let k = r.weighted(&o.w);
        let cmd = match k {
            0 => Cmd {
                seq,
                kind: CmdKind::Query(query_text(r)),
                act: Act::Program(if o.simple_programs {
                    simple_ok_program()
                } else {
                    gen_program(r, &o.prog_text)
                }),
            },
            1 => Cmd {
                seq,
                kind: CmdKind::Query(Blob::Lit(gen_use_text(r))),
                act: gen_init_act(r, o.init_errors),
            },
            2 => {
                let nn = r.usize_below(14);
                let mut name = blob_utf8(r, nn).to_vec();
                if r.chance(1, 6) {
                    // a NUL inside or behind the name is part of the name (COM_INIT_DB carries the
                    // rest of the packet, not a C string)
                    let at = r.usize_below(name.len() + 1);
                    // never split a multi-byte character (continuation bytes are 10xxxxxx)
                    let at = (0..=at).rev().find(|i| *i == name.len() || name[*i] & 0xC0 != 0x80).unwrap_or(0);
                    name.insert(at, 0);
                }
                Cmd {
                    seq,
                    kind: CmdKind::InitDb(Blob::Lit(name)),
                    act: gen_init_act(r, o.init_errors),
                }
            }
            3 => {
                let t: Vec<u8> = match r.below(8) {
                    0 => b"SELECT @@max_allowed_packet".to_vec(),
                    1 => b"select @@version_comment limit 1".to_vec(),
                    2 => b"SELECT @@socket".to_vec(),
                    3 => b"select @@max_allowed_packet".to_vec(),
                    4 => b"SELECT @@".to_vec(),
                    _ => {
                        // scoped, upper-cased, listed and decorated variable reads: every one of
                        // them is answered by the library itself, one way or another
                        let head = *r.pick(&["SELECT @@", "select @@"]);
                        let scope = *r.pick(&["", "", "global.", "GLOBAL.", "session.", "local.", "SESSION.", "persist.", "x.", "."]);
                        let name = *r.pick(&["max_allowed_packet", "MAX_ALLOWED_PACKET", "max_allowed_packet ", "max_allowed_packets", "max_allowed_packe", "sql_mode", "tx_isolation", "version", "", "autocommit"]);
                        let tail = *r.pick(&["", "", "", " limit 1", ", @@sql_mode", " AS v", ";", " "]);
                        format!("{}{}{}{}", head, scope, name, tail).into_bytes()
                    }
                };
                Cmd {
                    seq,
                    kind: CmdKind::Query(Blob::Lit(t)),
                    act: Act::None,
                }
            }
            4 => Cmd {
                seq,
                kind: CmdKind::Ping,
                act: Act::None,
            },
            5 => {
                let nn = r.usize_below(20);
                let payload = if r.coin() {
                    // table name, NUL, field wildcard (mysql_list_fields(conn, table, wild))
                    let t = *r.pick(&["t", "orders", "", "db.t"]);
                    let w = *r.pick(&["", "%", "id%", "not%", "x", "_", "%\\_%", "not implemented", "id"]);
                    let mut v = t.as_bytes().to_vec();
                    v.push(0);
                    v.extend_from_slice(w.as_bytes());
                    Blob::Lit(v)
                } else {
                    blob_bytes(r, nn)
                };
                Cmd {
                    seq,
                    kind: CmdKind::FieldList(payload),
                    act: Act::None,
                }
            }
            6 => {
                let id = *r.pick(&o.id_pool);
                if o.prepare_errors && r.chance(1, 5) {
                    Cmd {
                        seq,
                        kind: CmdKind::Prepare(query_text(r)),
                        act: Act::Prepare(PrepAct::Error {
                            kind: gen_errkind(r),
                            msg: gen_errmsg(r),
                        }),
                    }
                } else {
                    let np = r.usize_below(o.max_params + 1);
                    let nc = r.usize_below(5);
                    reg.stmts.insert(id, (np, None));
                    Cmd {
                        seq,
                        kind: CmdKind::Prepare(query_text(r)),
                        act: Act::Prepare(PrepAct::Reply {
                            id,
                            params: (0..np).map(|_| gen_col_text(r)).collect(),
                            cols: (0..nc).map(|_| gen_col_text(r)).collect(),
                        }),
                    }
                }
            }
            7 => {
                if reg.stmts.is_empty() {
                    continue;
                }
                let ids: Vec<u32> = reg.stmts.keys().cloned().collect();
                let id = *r.pick(&ids);
                let ent = reg.stmts.get_mut(&id).unwrap();
                let np = ent.0;
                let block = gen_exec_block(r, np, &mut ent.1, o.big_ok, 50);
                Cmd {
                    seq,
                    kind: CmdKind::Execute {
                        stmt: id,
                        // cursor-type byte: 0 as a rule; the cursor requests a real client can
                        // make (READ_ONLY 1, FOR_UPDATE 2, SCROLLABLE 4); anything
                        flags: match r.below(10) {
                            0 => *r.pick(&[1u8, 1, 2, 4, 5]),
                            1 => r.next() as u8,
                            _ => 0,
                        },
                        iters: if r.chance(1, 5) { r.next() as u32 } else { 1 },
                        block,
                    },
                    act: Act::Program(if o.simple_programs {
                        simple_ok_program()
                    } else {
                        gen_program(r, &o.prog_bin)
                    }),
                }
            }
            8 => {
                if reg.stmts.is_empty() {
                    continue;
                }
                let ids: Vec<u32> = reg.stmts.keys().cloned().collect();
                let id = *r.pick(&ids);
                let np = reg.stmts[&id].0;
                let param = if np == 0 || r.chance(1, 8) {
                    np as u16 + r.below(3) as u16
                } else {
                    r.below(np as u64) as u16
                };
                let nn = size_tiny(r);
                Cmd {
                    seq,
                    kind: CmdKind::LongData {
                        stmt: id,
                        param,
                        data: blob_bytes(r, nn),
                    },
                    act: Act::None,
                }
            }
            _ => {
                let id = *r.pick(&o.id_pool);
                reg.stmts.remove(&id);
                Cmd {
                    seq,
                    kind: CmdKind::Close(id),
                    act: Act::None,
                }
            }
        };
        let replying = !matches!(cmd.kind, CmdKind::Close(_) | CmdKind::LongData { .. });
        cmds.push(cmd);
        if o.sentinel_pings && r.coin() {
            let _ = replying;
            cmds.push(Cmd {
                seq: 0,
                kind: CmdKind::Ping,
                act: Act::None,
            });
        }
    }
    if r.chance(o.quit_at_end as u64, 100) {
        cmds.push(Cmd {
            seq: gen_seq(r, o.random_seq),
            kind: CmdKind::Quit,
            act: Act::None,
        });
    }
    cmds
}

/// long-data aware fix-up: parameters that have pending long data must not carry inline bytes.
/// Walks the conversation with the same registry semantics as the model and replaces the inline
/// value of such parameters by PVal::Skip.
pub fn fix_long_data(cmds: &mut [Cmd]) {
    let mut pending: BTreeMap<u32, BTreeMap<u16, ()>> = BTreeMap::new();
    for c in cmds.iter_mut() {
        match &mut c.kind {
            CmdKind::Prepare(_) => {
                if let Act::Prepare(PrepAct::Reply { id, .. }) = &c.act {
                    pending.remove(id);
                }
            }
            CmdKind::Close(id) => {
                pending.remove(id);
            }
            CmdKind::LongData { stmt, param, .. } => {
                pending.entry(*stmt).or_default().insert(*param, ());
            }
            CmdKind::Execute { stmt, block, .. } => {
                if let Some(p) = pending.remove(stmt) {
                    for (i, v) in block.values.iter_mut().enumerate() {
                        if p.contains_key(&(i as u16)) && !matches!(v, PVal::Null) {
                            *v = PVal::Skip;
                        }
                    }
                }
            }
            _ => {}
        }
    }
}

pub fn finish_plan(r: &mut Rng, cmds: Vec<Cmd>) -> Plan {
    let mut cmds = cmds;
    fix_long_data(&mut cmds);
    let mut p = Plan::basic(cmds);
    p.reads = gen_reads(r);
    p.arrival = gen_arrival(r);
    p.writes = gen_writes(r, true);
    p
}

/// Insert one operation on a statement id that is not open at that point (never prepared,
/// rejected at PREPARE time, or closed earlier): EXECUTE or SEND_LONG_DATA (also with an empty
/// chunk). The model ends the conversation there; whatever follows must never be served.
pub fn insert_dead_op(r: &mut Rng, cmds: &mut Vec<Cmd>) {
    let limit = cmds
        .iter()
        .position(|c| matches!(c.kind, CmdKind::Quit))
        .unwrap_or(cmds.len());
    let pos = r.usize_below(limit + 1);
    let mut live: Vec<u32> = Vec::new();
    let mut seen: Vec<u32> = Vec::new();
    for c in &cmds[..pos] {
        match (&c.kind, &c.act) {
            (CmdKind::Prepare(_), Act::Prepare(PrepAct::Reply { id, .. })) => {
                if !live.contains(id) {
                    live.push(*id);
                }
                if !seen.contains(id) {
                    seen.push(*id);
                }
            }
            (CmdKind::Close(id), _) => {
                live.retain(|x| x != id);
                if !seen.contains(id) {
                    seen.push(*id);
                }
            }
            _ => {}
        }
    }
    let dead: Vec<u32> = seen.into_iter().filter(|x| !live.contains(x)).collect();
    let mut id = if !dead.is_empty() && r.coin() {
        *r.pick(&dead)
    } else {
        0x7700_0000 | r.below(1 << 16) as u32
    };
    while live.contains(&id) {
        id = id.wrapping_add(0x0101_0101);
    }
    let cmd = if r.coin() {
        let block = if r.coin() {
            ParamBlock {
                bind: None,
                values: vec![],
                raw: None,
                stale_types: None,
            }
        } else {
            ParamBlock {
                bind: Some(vec![(0x08, 0)]),
                values: vec![PVal::Int(7)],
                raw: None,
                stale_types: None,
            }
        };
        Cmd {
            seq: 0,
            kind: CmdKind::Execute {
                stmt: id,
                flags: 0,
                iters: 1,
                block,
            },
            act: Act::Program(simple_ok_program()),
        }
    } else {
        let n = if r.coin() { 0 } else { size_tiny(r) };
        Cmd {
            seq: 0,
            kind: CmdKind::LongData {
                stmt: id,
                param: r.below(3) as u16,
                data: blob_bytes(r, n),
            },
            act: Act::None,
        }
    };
    cmds.insert(pos, cmd);
}

/// Some executions are answered by a shim that pulls only the first k of its parameters
/// (k = 0: it never touches the ParamParser, e.g. an execution refused up front). What such an
/// execution leaves behind must not change what later executions of the statement see.
pub fn sprinkle_pulls(r: &mut Rng, cmds: &mut [Cmd], one_in: u64) {
    for c in cmds.iter_mut() {
        if let (CmdKind::Execute { block, .. }, Act::Program(p)) = (&c.kind, &mut c.act) {
            let n = block.values.len();
            if n > 0 && r.chance(1, one_in) {
                match r.below(3) {
                    // never touches the ParamParser
                    0 => p.pull_params = Some(0),
                    // a prefix
                    1 => p.pull_params = Some(r.below(n as u64) as u16),
                    // steps over some (skip -> Iterator::nth), then takes a few or the rest
                    _ => {
                        p.pull_skip = 1 + r.below(n as u64) as u16;
                        p.pull_params = if r.coin() { None } else { Some(1 + r.below(n as u64) as u16) };
                    }
                }
            }
        }
    }
}

/// A query whose packet (header + command byte + text) is exactly 4096 * 2^k bytes long: it fills
/// a read buffer of that size to the brim, so that "the read filled the buffer" coincides with
/// "a complete command is buffered". Inserted at a random position before QUIT.
pub fn insert_aligned_query(r: &mut Rng, cmds: &mut Vec<Cmd>) {
    let limit = cmds
        .iter()
        .position(|c| matches!(c.kind, CmdKind::Quit))
        .unwrap_or(cmds.len());
    let pos = r.usize_below(limit + 1);
    let total = 4096usize << r.below(6);
    let delta = *r.pick(&[0usize, 0, 0, 1, 4]);
    let n = total - 5 - delta;
    let mut text = b"aligned ".to_vec();
    text.extend_from_slice(&blob_ascii(r, n - 8).to_vec());
    cmds.insert(
        pos,
        Cmd {
            seq: 0,
            kind: CmdKind::Query(Blob::Lit(text)),
            act: Act::Program(simple_ok_program()),
        },
    );
}

/// The cursor-type byte of some EXECUTEs asks for a cursor (READ_ONLY 1, FOR_UPDATE 2,
/// SCROLLABLE 4) or is arbitrary: the library has no cursors, so the reply must stay an
/// ordinary inline resultset that a client can decode.
pub fn sprinkle_exec_flags(r: &mut Rng, cmds: &mut [Cmd], one_in: u64) {
    for c in cmds.iter_mut() {
        if let CmdKind::Execute { flags, .. } = &mut c.kind {
            if r.chance(1, one_in) {
                *flags = if r.chance(1, 4) { r.next() as u8 } else { *r.pick(&[1u8, 1, 2, 4, 5]) };
            }
        }
    }
}
