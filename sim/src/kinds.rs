//! ErrorKind table extracted from the dependency's source at build time (build.rs) plus a pinned
//! snapshot (fixtures/errorkinds.tsv) of name/code/SQLSTATE taken from the pinned commit.

include!(concat!(env!("OUT_DIR"), "/kinds_gen.rs"));

/// (name, declared code, sqlstate() as computed by the library now, kind)
pub fn lookup(code: u16) -> Option<(&'static str, u16, &'static [u8; 5], msql_srv::ErrorKind)> {
    // KINDS is sorted by code in the source; fall back to a scan if not
    let i = match KINDS.binary_search_by_key(&code, |k| k.1) {
        Ok(i) => Some(i),
        Err(_) => KINDS.iter().position(|k| k.1 == code),
    }?;
    let k = KINDS[i];
    Some((k.0, k.1, k.2.sqlstate(), k.2))
}

pub fn snapshot() -> Vec<(String, u16, [u8; 5])> {
    let text = include_str!("../../fixtures/errorkinds.tsv");
    let mut v = Vec::new();
    for line in text.lines() {
        let mut it = line.split('\t');
        if let (Some(n), Some(c), Some(s)) = (it.next(), it.next(), it.next()) {
            if let Ok(c) = c.parse::<u16>() {
                let sb = s.as_bytes();
                if sb.len() == 5 {
                    let mut a = [0u8; 5];
                    a.copy_from_slice(sb);
                    v.push((n.to_string(), c, a));
                }
            }
        }
    }
    v
}
