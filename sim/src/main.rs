mod dec;
mod enc;
mod judge;
mod kinds;
mod model;
mod panichook;
mod plan;
mod rng;
mod shim;
mod sim;
mod stream;
mod tlsfix;
mod tlssim;

use plan::*;

fn main() {
    panichook::install();
    let cmds = vec![
        Cmd { seq: 0, kind: CmdKind::Ping, act: Act::None },
        Cmd {
            seq: 0,
            kind: CmdKind::Query(Blob::lit(b"SELECT 1")),
            act: Act::Program(Program {
                units: vec![Unit::Rows(RowsUnit {
                    cols: vec![ColSpec { table: Blob::lit(b"t"), name: Blob::lit(b"c"), coltype: 8, flags: 0 }],
                    rows: vec![vec![Cell::I64(42)], vec![Cell::Null(0)]],
                    write_row: false,
                    last_row_ended: true,
                    close: Close::Finish,
                    contra: None,
                })],
                end: End::Implicit,
                ret_err: None,
                probe_cells: false,
            }),
        },
        Cmd { seq: 0, kind: CmdKind::Quit, act: Act::None },
    ];
    let mut p = Plan::basic(cmds);
    p.reads.tail = Tail::Fixed(3);
    p.arrival = Arrival::lockstep();
    let out = sim::simulate(&p);
    println!("end: {:?}", out.end);
    for e in &out.w.events {
        println!("{:?}", e);
    }
    for c in &out.w.callbacks {
        println!("cb {} {}", c.0, c.1.short());
    }
    println!("violations: {:#?}", judge::all(&p, &out));
    println!("{}", serde_json::to_string(&p).unwrap());
}
