mod dec;
mod enc;
mod gen;
mod judge;
mod kinds;
mod model;
mod myc2;
mod panichook;
mod plan;
mod rng;
mod runner;
mod shim;
mod sim;
mod stream;
mod tcpdiff;
mod tlsfix;
mod tlssim;

use runner::*;
use serde_json::json;
use std::collections::BTreeMap;
use std::io::Write;
use std::os::unix::io::FromRawFd;

pub const DEFAULT_SEED: u64 = 20_260_104;

static mut OUT_FD: i32 = 1;

fn out() -> std::mem::ManuallyDrop<std::fs::File> {
    // SAFETY: OUT_FD is written once at startup before any thread is spawned
    std::mem::ManuallyDrop::new(unsafe { std::fs::File::from_raw_fd(OUT_FD) })
}

macro_rules! say {
    ($($a:tt)*) => {{
        let mut o = out();
        let _ = writeln!(&mut *o, $($a)*);
    }};
}

/// The library prints to stdout (`println!("read {}", f)` in value/decode.rs); keep our own
/// output on a private duplicate of fd 1 and point fd 1 at /dev/null.
fn redirect_stdout() {
    unsafe {
        let saved = libc::dup(1);
        let devnull = libc::open(b"/dev/null\0".as_ptr() as *const libc::c_char, libc::O_WRONLY);
        if saved >= 0 && devnull >= 0 {
            libc::dup2(devnull, 1);
            libc::close(devnull);
            OUT_FD = saved;
        }
    }
}

fn all_checks() -> Vec<Box<dyn Check>> {
    gen::all_checks()
}

fn find_check(id: &str) -> Box<dyn Check> {
    for c in all_checks() {
        if c.id() == id {
            return c;
        }
    }
    eprintln!("harness: unknown property id {}", id);
    std::process::exit(2)
}

fn seed_from_env() -> u64 {
    match std::env::var("VERIF_SEED") {
        Ok(s) if !s.trim().is_empty() => match s.trim().parse::<u64>() {
            Ok(v) => v,
            Err(_) => match s.trim().parse::<i64>() {
                Ok(v) => v as u64,
                Err(_) => rng::fnv(s.as_bytes()),
            },
        },
        _ => DEFAULT_SEED,
    }
}

fn components() -> serde_json::Value {
    json!({
        "real": ["msql-srv: MysqlIntermediary::run_on/init/run, PacketConn (read loop, write path, seq ids, switch_to_tls), commands, params, resultset, writers, value::{encode,decode}, errorcodes, tls::{SwitchableConn,PrependedReader}", "nom", "byteorder", "mysql_common (lenenc helpers, constants)", "chrono", "rustls 0.22 server side (seeded CryptoProvider)"],
        "stub": ["transport: SimStream (Read+Write) instead of TcpStream", "MySQL client: scripted client model + independent decoder (for TLS: real rustls ClientConnection driven in memory)", "application: SimShim interpreting generated writer programs", "OS: none involved (one run = one function call on one thread)"]
    })
}

/// `run` supervises the real batch in a child process so that a process-level death of the code
/// under test (abort after a double panic, stack overflow, allocation failure) is still turned
/// into a replayable VIOLATION instead of a bare crash.
/// A probe process is given up on when it has burnt more CPU time than any single job needs
/// (wall time alone says nothing on an overloaded machine), or after 30 minutes.
fn child_wedged(pid: u32, t0: &std::time::Instant) -> bool {
    if t0.elapsed().as_secs() > 1800 {
        return true;
    }
    let stat = match std::fs::read_to_string(format!("/proc/{}/stat", pid)) {
        Ok(s) => s,
        Err(_) => return t0.elapsed().as_secs() > WEDGE_S + 30,
    };
    // fields after the parenthesised command name; utime and stime are fields 14 and 15
    let rest = stat.rsplit(')').next().unwrap_or("");
    let f: Vec<&str> = rest.split_whitespace().collect();
    let ticks: u64 = f.get(11).and_then(|x| x.parse::<u64>().ok()).unwrap_or(0) + f.get(12).and_then(|x| x.parse::<u64>().ok()).unwrap_or(0);
    let hz = unsafe { libc::sysconf(libc::_SC_CLK_TCK) }.max(1) as u64;
    ticks / hz > WEDGE_S + 30
}

fn cmd_run_supervised(id: &str, tier: Tier) -> i32 {
    use std::os::unix::process::ExitStatusExt;
    let exe = std::env::current_exe().unwrap();
    let dir = verif_dir().join("replays");
    let _ = std::fs::create_dir_all(&dir);
    // the journal is rewritten for every job: keep it off the disk (a write held up by the
    // kernel's dirty-page throttling would stall a worker)
    let shm = std::path::Path::new("/dev/shm");
    let jdir = if shm.is_dir() && std::fs::metadata(shm).map(|m| !m.permissions().readonly()).unwrap_or(false) {
        shm.to_path_buf()
    } else {
        dir.clone()
    };
    let journal = jdir.join(format!(".simcheck-journal-{}", std::process::id()));
    let status = std::process::Command::new(&exe)
        .args(["run", id, tier.name()])
        .env("SIMCHECK_INNER", "1")
        .env("SIM_JOURNAL", &journal)
        .stdout(unsafe { std::process::Stdio::from_raw_fd(libc::dup(OUT_FD)) })
        .status();
    let st = match status {
        Ok(s) => s,
        Err(e) => {
            say!("HARNESS-ERROR: cannot start the batch process: {}", e);
            return 2;
        }
    };
    if let Some(c) = st.code() {
        let _ = std::fs::remove_file(&journal);
        return c;
    }
    let sig = st.signal().unwrap_or(0);
    say!("batch process died with signal {}; looking for the run that kills it", sig);
    // jobs the workers were in when the process died
    let mut jobs: Vec<u64> = Vec::new();
    if let Ok(b) = std::fs::read(&journal) {
        for c in b.chunks(8) {
            if c.len() == 8 {
                let v = u64::from_le_bytes([c[0], c[1], c[2], c[3], c[4], c[5], c[6], c[7]]);
                if v > 0 {
                    jobs.push(v - 1);
                }
            }
        }
    }
    let _ = std::fs::remove_file(&journal);
    jobs.sort_unstable();
    jobs.dedup();
    let seed = seed_from_env();
    for job in jobs {
        let planlog = dir.join(format!(".planlog-{}-{}", std::process::id(), job));
        let child = std::process::Command::new(&exe)
            .args(["show", id, tier.name(), &job.to_string()])
            .env("SIM_PLANLOG", &planlog)
            .stdout(std::process::Stdio::null())
            .stderr(std::process::Stdio::null())
            .spawn();
        // a wedged run never returns: give the probe a deadline
        let died = match child {
            Ok(mut c) => {
                let t0 = std::time::Instant::now();
                loop {
                    match c.try_wait() {
                        Ok(Some(s)) => break s.code().is_none(),
                        Ok(None) => {
                            if child_wedged(c.id(), &t0) {
                                let _ = c.kill();
                                let _ = c.wait();
                                break true;
                            }
                            std::thread::sleep(std::time::Duration::from_millis(50));
                        }
                        Err(_) => break false,
                    }
                }
            }
            Err(_) => false,
        };
        if died {
            if let Ok(text) = std::fs::read_to_string(&planlog) {
                if let Ok(plan) = serde_json::from_str::<plan::Plan>(&text) {
                    let path = dir.join(format!("{}-{}-{}-abort.json", id, seed, job));
                    let rf = ReplayFile {
                        format: 1,
                        property: id.to_string(),
                        signature: Signature {
                            rule: "abort".into(),
                            site: "process died while serving this connection".into(),
                        },
                        detail: format!("the process serving this plan died with signal {} (double panic / stack overflow / allocation failure)", sig),
                        found_by: json!({"seed": seed, "tier": tier.name(), "job": job}),
                        minimised_from_cmds: plan.cmds.len(),
                        plan,
                    };
                    let _ = std::fs::write(&path, serde_json::to_string_pretty(&rf).unwrap());
                    let _ = std::fs::remove_file(&planlog);
                    say!("  abort / the process died (signal {}) while serving the plan of job {}", sig, job);
                    say!("VIOLATION property={} replay={}", id, path.display());
                    return 1;
                }
            }
        }
        let _ = std::fs::remove_file(&planlog);
    }
    say!("HARNESS-ERROR: the batch process died with signal {} and no single job reproduces it", sig);
    2
}

fn cmd_run(id: &str, tier: Tier) -> i32 {
    let check = find_check(id);
    let known = Known::load();
    let seed = seed_from_env();
    say!("simcheck {} {} VERIF_SEED={}", id, tier.name(), seed);
    let res = run_batch(check.as_ref(), tier, seed, &known);
    let mut side = BTreeMap::new();
    let mut side_viol: Vec<(String, judge::Violation)> = Vec::new();
    check.side_checks(&mut side, &mut side_viol);

    let st = &res.stats;
    if !st.determinism_mismatch.is_empty() {
        say!(
            "HARNESS-ERROR: determinism self-check failed for job(s) {:?}",
            &st.determinism_mismatch[..st.determinism_mismatch.len().min(5)]
        );
        write_evidence(check.as_ref(), tier, seed, &res, &side, 0, &[]);
        return 2;
    }

    // known findings
    for (k, (n, detail)) in &st.known_hits {
        say!("KNOWN-FINDING: property={} {} (hit {} time(s); e.g. {})", id, k, n, detail);
    }

    // violations: minimise, write replay, confirm in a fresh process
    let mut violation_lines = Vec::new();
    let mut seen_sigs: Vec<(String, String)> = Vec::new();
    let mut exit = 0;
    for f in &st.failures {
        let sig = Signature {
            rule: f.violation.rule.to_string(),
            site: f.violation.site.clone(),
        };
        if seen_sigs.contains(&(sig.rule.clone(), sig.site.clone())) {
            continue;
        }
        seen_sigs.push((sig.rule.clone(), sig.site.clone()));
        let (min_plan, tried) = minimise(check.as_ref(), &known, &f.plan, &sig);
        let dir = verif_dir().join("replays");
        let _ = std::fs::create_dir_all(&dir);
        let path = dir.join(format!("{}-{}-{}-{}.json", id, seed, f.job, f.sub));
        let rf = ReplayFile {
            format: 1,
            property: id.to_string(),
            signature: sig.clone(),
            detail: f.violation.detail.clone(),
            found_by: json!({"seed": seed, "tier": tier.name(), "job": f.job, "sub": f.sub, "minimiser_candidates": tried}),
            minimised_from_cmds: f.plan.cmds.len(),
            plan: min_plan,
        };
        std::fs::write(&path, serde_json::to_string_pretty(&rf).unwrap()).expect("write replay");
        // fresh-process confirmation
        let exe = std::env::current_exe().unwrap();
        let status = std::process::Command::new(exe)
            .arg("replay")
            .arg(&path)
            .arg("--quiet")
            .status();
        match status {
            Ok(s) if s.code() == Some(1) => {
                say!("  {} / {}: {}", sig.rule, sig.site, f.violation.detail);
                say!("VIOLATION property={} replay={}", id, path.display());
                violation_lines.push(format!("{} | {} | {}", sig.rule, sig.site, f.violation.detail));
                exit = 1;
            }
            other => {
                say!(
                    "HARNESS-ERROR: replay of {} did not reproduce {:?} in a fresh process ({:?})",
                    path.display(),
                    sig,
                    other
                );
                return 2;
            }
        }
    }
    for (name, v) in &side_viol {
        // side checks have no plan; the replay file describes the failing table entry
        let dir = verif_dir().join("replays");
        let _ = std::fs::create_dir_all(&dir);
        let path = dir.join(format!("{}-side-{}.json", id, name));
        let _ = std::fs::write(
            &path,
            serde_json::to_string_pretty(&json!({"format": 1, "property": id, "side_check": name, "rule": v.rule, "site": v.site, "detail": v.detail})).unwrap(),
        );
        say!("  side check {}: {}", name, v.detail);
        say!("VIOLATION property={} replay={}", id, path.display());
        violation_lines.push(format!("side:{} | {}", name, v.detail));
        exit = 1;
    }
    write_evidence(check.as_ref(), tier, seed, &res, &side, violation_lines.len(), &violation_lines);
    say!(
        "{} {}: {} runs in {:.1}s ({} workers{}), {} distinct non-trivial, violations: {}",
        id,
        tier.name(),
        st.evaluations,
        res.wall_s,
        res.workers,
        if res.truncated { ", TRUNCATED" } else { "" },
        st.plan_sigs.len(),
        violation_lines.len()
    );
    exit
}

fn write_evidence(
    check: &dyn Check,
    tier: Tier,
    seed: u64,
    res: &BatchResult,
    side: &BTreeMap<String, serde_json::Value>,
    nviol: usize,
    viol: &[String],
) {
    let st = &res.stats;
    let runs_per_hour = if res.wall_s > 0.0 {
        (st.evaluations as f64 / res.wall_s * 3600.0) as u64
    } else {
        0
    };
    let mut faults = BTreeMap::new();
    let mut probes = BTreeMap::new();
    for (k, v) in &st.counters {
        if k.starts_with("fault.") {
            faults.insert(k.to_string(), *v);
        } else {
            probes.insert(k.to_string(), *v);
        }
    }
    let unreached: Vec<&str> = check
        .probes()
        .iter()
        .filter(|p| st.counters.get(*p).copied().unwrap_or(0) == 0)
        .copied()
        .collect();
    let samples: Vec<serde_json::Value> = st.samples.iter().map(|s| s.1.clone()).collect();
    let ev = json!({
        "property_id": check.id(),
        "tier": tier.name(),
        "seed": seed,
        "level": check.level(),
        "coverage": {
            "evaluations": st.evaluations,
            "distinct_nontrivial": st.plan_sigs.len(),
            "distinct_nontrivial_capped": st.sig_capped,
            "rule": check.rule_text(),
            "samples": samples,
            "decided_by": check.decided_by(),
            "jobs": {"done": res.jobs_done, "total": res.jobs_total},
            "truncated": res.truncated,
            "nontrivial_runs": st.nontrivial,
            "distinct_trace_shapes": st.trace_shapes.len(),
            "simulated_time": {"unit": "transport operations (the code has no clock)", "transport_ops": st.ops, "client_bytes_delivered": st.client_bytes, "server_bytes_written": st.server_bytes},
            "runs_per_hour_extrapolated": runs_per_hour,
            "workers": res.workers,
            "faults_fired": faults,
            "reach_probes": probes,
            "unreached_probes": unreached,
            "run_end_classes": st.ends,
            "other_rule_hits_not_owned_by_this_property": st.other_rule_hits,
            "known_finding_hits": st.known_hits.iter().map(|(k, v)| (k.clone(), v.0)).collect::<BTreeMap<_, _>>(),
            "determinism_rechecked_runs": st.determinism_checked,
            "batch_digest": format!("{:016x}", st.digest),
            "side_checks": side,
            "components": components(),
            "violation_details": viol,
            "exhaustive": false
        },
        "assumptions": check.assumptions(),
        "wall_s": (res.wall_s * 1000.0).round() / 1000.0,
        "violations": nviol
    });
    let dir = verif_dir().join("evidence");
    let _ = std::fs::create_dir_all(&dir);
    let p = dir.join(format!("{}.json", check.id()));
    std::fs::write(&p, serde_json::to_string_pretty(&ev).unwrap()).expect("write evidence");
}

fn cmd_replay(path: &str, quiet: bool) -> i32 {
    let text = match std::fs::read_to_string(path) {
        Ok(t) => t,
        Err(e) => {
            eprintln!("harness: cannot read {}: {}", path, e);
            return 2;
        }
    };
    let rf: ReplayFile = match serde_json::from_str(&text) {
        Ok(r) => r,
        Err(e) => {
            // side-check replay files are descriptive only
            if text.contains("\"side_check\"") {
                let v: serde_json::Value = serde_json::from_str(&text).unwrap_or(json!(null));
                let id = v["property"].as_str().unwrap_or("?").to_string();
                let check = find_check(&id);
                let mut side = BTreeMap::new();
                let mut sv = Vec::new();
                check.side_checks(&mut side, &mut sv);
                if sv.iter().any(|(n, _)| Some(n.as_str()) == v["side_check"].as_str()) {
                    say!("VIOLATION property={} replay={}", id, path);
                    return 1;
                }
                return 0;
            }
            eprintln!("harness: cannot parse {}: {}", path, e);
            return 2;
        }
    };
    if rf.signature.rule == "abort" && std::env::var("SIMCHECK_INNER").is_err() {
        // the plan kills the process: replay it in a child
        let exe = std::env::current_exe().unwrap();
        let st = std::process::Command::new(exe)
            .args(["replay", path, "--quiet"])
            .env("SIMCHECK_INNER", "1")
            .stdout(std::process::Stdio::null())
            .stderr(std::process::Stdio::null())
            .spawn()
            .and_then(|mut c| {
                let t0 = std::time::Instant::now();
                loop {
                    if let Some(s) = c.try_wait()? {
                        return Ok(s);
                    }
                    if child_wedged(c.id(), &t0) {
                        c.kill()?;
                        return c.wait();
                    }
                    std::thread::sleep(std::time::Duration::from_millis(50));
                }
            });
        return match st {
            Ok(s) if s.code().is_none() => {
                if !quiet {
                    say!("replay: the process serving this plan died again");
                }
                say!("VIOLATION property={} replay={}", rf.property, path);
                1
            }
            _ => {
                if !quiet {
                    say!("replay: the process survives this plan on this tree");
                }
                0
            }
        };
    }
    let check = find_check(&rf.property);
    let known = Known::load();
    let out = sim::simulate(&rf.plan);
    let (mine, other) = judge_for(check.as_ref(), &rf.plan, &out);
    if !quiet {
        say!("replay {} property={} signature={:?}", path, rf.property, rf.signature);
        say!("plan: {}", serde_json::to_string(&compact_plan(&rf.plan)).unwrap());
        for e in &out.w.events {
            say!("  {:?}", e);
        }
        for (op, cb) in &out.w.callbacks {
            say!("  callback@op{} {}", op, cb.short());
        }
        for a in &out.w.api {
            say!("  api act#{} {} -> {}", a.act, a.call, if a.ok { "Ok".to_string() } else { format!("Err({})", a.detail) });
        }
        say!("  run_on -> {:?}", out.end);
        for v in &mine {
            say!("  violation[{}] {} :: {}", v.rule, v.site, v.detail);
        }
        for v in &other {
            say!("  (not owned by {}) [{}] {} :: {}", rf.property, v.rule, v.site, v.detail);
        }
    }
    let hit = mine
        .iter()
        .any(|v| v.rule == rf.signature.rule && v.site == rf.signature.site && known.matches(check.id(), v).is_none());
    if hit {
        if !quiet {
            say!("VIOLATION property={} replay={}", rf.property, path);
        }
        1
    } else {
        if !quiet {
            say!("replay: recorded signature does not recur on this tree");
        }
        0
    }
}

fn cmd_show(id: &str, tier: Tier, job: u64) -> i32 {
    // debugging aid: print the plans of one job and their verdicts
    struct Dump<'a>(&'a dyn Check);
    let check = find_check(id);
    let known = Known::load();
    let seed = seed_from_env();
    let idhash = rng::fnv(check.id().as_bytes());
    let tier_n = if tier == Tier::Quick { 1 } else { 2 };
    let mut r = rng::Rng::new(rng::mix(&[seed, idhash, tier_n, job]));
    let mut ctx = JobCtx {
        check: check.as_ref(),
        known: &known,
        stats: Stats::default(),
        job,
        sub: 0,
        want_sample: true,
        det_check: false,
        stop_on_fail: false,
        planlog: std::env::var("SIM_PLANLOG").ok().map(Into::into),
        hb: None,
    };
    let _ = Dump(check.as_ref()).0;
    check.run_job(&mut r, tier, job, &mut ctx);
    for s in &ctx.stats.samples {
        say!("{}", serde_json::to_string(&s.1).unwrap());
    }
    for f in &ctx.stats.failures {
        say!("FAIL sub={} [{}] {} :: {}", f.sub, f.violation.rule, f.violation.site, f.violation.detail);
        say!("{}", serde_json::to_string(&f.plan).unwrap());
    }
    say!("evaluations={} ends={:?} other={:?}", ctx.stats.evaluations, ctx.stats.ends, ctx.stats.other_rule_hits);
    0
}

fn cmd_selftest(n: u64) -> i32 {
    // print one line per (check, job): trace hashes; the wrapper script diffs the outputs of
    // separate processes. One thread per check; output is assembled in check order.
    let known = Known::load();
    let seed = seed_from_env();
    let checks = all_checks();
    let mut results: Vec<(Vec<String>, bool)> = Vec::new();
    std::thread::scope(|s| {
        let hs: Vec<_> = checks
            .iter()
            .map(|check| {
                let known = &known;
                s.spawn(move || {
                    let mut lines = Vec::new();
                    let mut bad = false;
                    let idhash = rng::fnv(check.id().as_bytes());
                    // the two checks whose jobs are huge (16 MiB messages, complete fault enumeration)
                    let n = if matches!(check.id(), "C04" | "C19") { n.min(10) } else { n };
                    for job in 0..n {
                        let mut r = rng::Rng::new(rng::mix(&[seed, idhash, 1, job]));
                        let mut ctx = JobCtx {
                            check: check.as_ref(),
                            known,
                            stats: Stats::default(),
                            job,
                            sub: 0,
                            want_sample: false,
                            det_check: true,
                            stop_on_fail: false,
                            planlog: None,
                            hb: None,
                        };
                        check.run_job(&mut r, Tier::Quick, job, &mut ctx);
                        let mut shapes: Vec<u64> = ctx.stats.trace_shapes.iter().cloned().collect();
                        shapes.sort_unstable();
                        lines.push(format!(
                            "{} job={} evals={} ops={} cbytes={} sbytes={} shapes={:x} digest={:x} mismatch={}",
                            check.id(),
                            job,
                            ctx.stats.evaluations,
                            ctx.stats.ops,
                            ctx.stats.client_bytes,
                            ctx.stats.server_bytes,
                            rng::mix(&shapes),
                            ctx.stats.digest,
                            ctx.stats.determinism_mismatch.len()
                        ));
                        if !ctx.stats.determinism_mismatch.is_empty() {
                            bad = true;
                        }
                    }
                    (lines, bad)
                })
            })
            .collect();
        for h in hs {
            results.push(h.join().unwrap_or_else(|_| (vec!["harness: selftest thread panicked".into()], true)));
        }
    });
    let mut rc = 0;
    for (lines, bad) in results {
        for l in lines {
            say!("{}", l);
        }
        if bad {
            rc = 2;
        }
    }
    rc
}

fn main() {
    redirect_stdout();
    panichook::install();
    let args: Vec<String> = std::env::args().collect();
    let tier_of = |s: &str| match s {
        "quick" => Tier::Quick,
        "thorough" => Tier::Thorough,
        _ => {
            eprintln!("harness: tier must be quick or thorough");
            std::process::exit(2)
        }
    };
    let code = match args.get(1).map(|s| s.as_str()) {
        Some("run") if args.len() >= 4 => {
            if std::env::var("SIMCHECK_INNER").is_ok() {
                cmd_run(&args[2], tier_of(&args[3]))
            } else {
                cmd_run_supervised(&args[2], tier_of(&args[3]))
            }
        }
        Some("replay") if args.len() >= 3 => cmd_replay(&args[2], args.get(3).map(|s| s == "--quiet").unwrap_or(false)),
        Some("show") if args.len() >= 5 => cmd_show(&args[2], tier_of(&args[3]), args[4].parse().unwrap_or(0)),
        Some("selftest") => cmd_selftest(args.get(2).and_then(|s| s.parse().ok()).unwrap_or(50)),
        Some("list") => {
            for c in all_checks() {
                say!("{}", c.id());
            }
            0
        }
        _ => {
            eprintln!("usage: simcheck run <ID> <quick|thorough> | replay <file> [--quiet] | show <ID> <tier> <job> | selftest [n] | list");
            2
        }
    };
    std::process::exit(code);
}
